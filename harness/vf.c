/*
 * vf.c: run loop, crash attribution, replay-before-report, summaries.
 * See vf.h.  This file is compiled without the allocation shim.
 */
#define _GNU_SOURCE
#include <ctype.h>
#include <errno.h>
#include <fcntl.h>
#include <math.h>
#include <signal.h>
#include <stdarg.h>
#include <stdio.h>
#include <stdlib.h>
#include <string.h>
#include <sys/mman.h>
#include <sys/stat.h>
#include <sys/time.h>
#include <sys/wait.h>
#include <time.h>
#include <unistd.h>
#include "vf.h"

#define MAX_VIOL	48
#define MAX_OUTCOMES	4096
#define MAX_SAMPLES	6

typedef struct viol {
    long caseid;
    char sig[200];
    char msg[1600];
    char desc[700];
    char log[3000];
    int  replayed;		/* 0 not yet, 1 reproduced, -1 flaky, -2 gone */
} viol_t;

typedef struct agg {
    volatile long cur;
    long done;
    long nontrivial;
    long transitions;
    long states;
    long viol_total;
    int  nviol;
    viol_t viol[MAX_VIOL];
    int  noutcomes;
    char outcomes[MAX_OUTCOMES][96];
    long outcome_counts[MAX_OUTCOMES];
    int  nsamples;
    char samples[MAX_SAMPLES][700];
    int  complete;
    int  iso_valid;
    vf_result iso;
} agg_t;

static agg_t *A;
uint64_t vf_seed = 1;
int vf_shard;
int vf_verbose;
static int g_tier;
static int g_nshards = 1;
static char g_prefix[512] = "/var/tmp/vf-one";
static char g_errpath[600];
static double g_deadline;	/* absolute, seconds; 0 = none */

/* bfs frontier */
static int **F_ops;
static int *F_len;
static long F_n;
static int g_nops;
static int g_states_fd = -1;

/* ------------------------------------------------------------------ */

static double now_s(void)
{
    struct timespec ts;
    clock_gettime(CLOCK_MONOTONIC, &ts);
    return ts.tv_sec + ts.tv_nsec * 1e-9;
}

void vf_fail(vf_result *r, const char *sig, const char *fmt, ...)
{
    va_list ap;

    if (vf_verbose) {
	va_start(ap, fmt);
	fprintf(stdout, "  FAIL[%s] ", sig);
	vfprintf(stdout, fmt, ap);
	fprintf(stdout, "\n");
	va_end(ap);
    }
    if (r->status == VF_VIOL)
	return;
    r->status = VF_VIOL;
    snprintf(r->sig, sizeof(r->sig), "%s", sig);
    va_start(ap, fmt);
    vsnprintf(r->msg, sizeof(r->msg), fmt, ap);
    va_end(ap);
}

void vf_outcome(vf_result *r, const char *fmt, ...)
{
    va_list ap;
    va_start(ap, fmt);
    vsnprintf(r->outcome, sizeof(r->outcome), fmt, ap);
    va_end(ap);
}

void vf_desc(vf_result *r, const char *fmt, ...)
{
    va_list ap;
    va_start(ap, fmt);
    vsnprintf(r->desc, sizeof(r->desc), fmt, ap);
    va_end(ap);
}

void vf_key_append(vf_result *r, const char *fmt, ...)
{
    va_list ap;
    size_t n = strlen(r->key);
    if (n >= sizeof(r->key) - 1)
	return;
    va_start(ap, fmt);
    vsnprintf(r->key + n, sizeof(r->key) - n, fmt, ap);
    va_end(ap);
}

void vf_note(const char *fmt, ...)
{
    va_list ap;
    if (!vf_verbose)
	return;
    va_start(ap, fmt);
    vfprintf(stdout, fmt, ap);
    va_end(ap);
    fputc('\n', stdout);
    fflush(stdout);
}

unsigned long vf_exec_begin(void)
{
    vf_fault_reset();
    return vf_alloc_mark();
}

void vf_exec_end(vf_result *r, unsigned long mark)
{
    char sites[400];
    int n = vf_leak_report(mark, sites, sizeof(sites));

    if (n > 0) {
	char sig[200];
	char first[120];
	/* signature: first leaking site without line number */
	snprintf(first, sizeof(first), "%s", sites);
	char *c = strchr(first, ',');
	if (c) *c = '\0';
	c = strchr(first, ':');
	if (c) *c = '\0';
	snprintf(sig, sizeof(sig), "leak:%s", first);
	vf_fail(r, sig, "%d block(s) still allocated after teardown, "
		"allocated at %s", n, sites);
	vf_leak_discard(mark);
    }
}

void vf_errlog_reset(vf_errlog *l)
{
    l->count = 0;
    l->nonwarn = 0;
    l->bad_format = 0;
}

void (*vf_errfn_hook)(void);

void vf_errfn(const char *message, void *arg, int category)
{
    vf_errlog *l = arg;
    int e = errno;

    if (vf_verbose)
	fprintf(stdout, "    [errfn cat=%d errno=%d] %s\n", category, e,
		message ? message : "(null)");
    if (l == NULL) {
	errno = VF_ERRFN_ERRNO;
	return;
    }
    if (l->count < VF_ERRLOG_MAX) {
	l->category[l->count] = category;
	l->err_no[l->count] = e;
	snprintf(l->msg[l->count], sizeof(l->msg[0]), "%s",
		message ? message : "(null)");
    }
    if (message == NULL || message[0] == '\0' || strchr(message, '\n'))
	l->bad_format = 1;
    ++l->count;
    if (category != 4 /* VNAERR_WARNING */)
	++l->nonwarn;
    /* an application callback may look at the object the error is about
       (to log its file name, its size): the driver's hook does that */
    if (vf_errfn_hook != NULL) {
	static int busy;
	if (!busy) {
	    busy = 1;
	    vf_errfn_hook();
	    busy = 0;
	}
    }
    /* vnaerr(3): "The library sets errno before calling error_fn and again
       before returning failure": an application callback may disturb errno
       (failing log write); leave a value no libvna path produces */
    errno = VF_ERRFN_ERRNO;
}

/* splitmix64-based counter generator */
uint64_t vf_hash64(uint64_t a, uint64_t b)
{
    uint64_t z = a * 0x9E3779B97F4A7C15ULL + b + 0x632BE59BD9B4E019ULL;
    z ^= vf_seed * 0xD1342543DE82EF95ULL;
    z = (z ^ (z >> 30)) * 0xBF58476D1CE4E5B9ULL;
    z = (z ^ (z >> 27)) * 0x94D049BB133111EBULL;
    z ^= z >> 31;
    z = (z ^ (z >> 30)) * 0xBF58476D1CE4E5B9ULL;
    z = (z ^ (z >> 27)) * 0x94D049BB133111EBULL;
    return z ^ (z >> 31);
}

double vf_uniform(uint64_t stream, uint64_t idx)
{
    return (double)(vf_hash64(stream, idx) >> 11) / 9007199254740992.0;
}

double vf_gauss(uint64_t stream, uint64_t idx)
{
    double u1 = vf_uniform(stream, 2 * idx);
    double u2 = vf_uniform(stream, 2 * idx + 1);
    if (u1 < 1e-300)
	u1 = 1e-300;
    return sqrt(-2.0 * log(u1)) * cos(2.0 * M_PI * u2);
}

double complex vf_cunit(uint64_t stream, uint64_t idx)
{
    double r = sqrt(vf_uniform(stream, 2 * idx));
    double a = 2.0 * M_PI * vf_uniform(stream, 2 * idx + 1);
    return r * cos(a) + I * r * sin(a);
}

const char *vf_tmp(const char *name)
{
    static char buf[4][700];
    static int k;
    char *b = buf[k++ & 3];
    snprintf(b, sizeof(buf[0]), "%s.d/%s", g_prefix, name);
    return b;
}

/* ------------------------------------------------------------------ */

static void case_label(long caseid, char *buf, size_t n)
{
    if (!vf_drv.bfs) {
	snprintf(buf, n, "%ld", caseid);
	return;
    }
    long L = caseid / g_nops;
    int op = (int)(caseid % g_nops);
    size_t off = 0;
    buf[0] = '\0';
    for (int i = 0; i < F_len[L]; ++i)
	off += (size_t)snprintf(buf + off, off < n ? n - off : 0, "%d ",
		F_ops[L][i]);
    snprintf(buf + off, off < n ? n - off : 0, "%d", op);
}

static void run_case(long caseid, vf_result *r)
{
    memset(r, 0, offsetof(vf_result, key) + 1);
    r->prune = 0;
    if (!vf_drv.bfs) {
	vf_drv.run(g_tier, caseid, r);
    } else {
	long L = caseid / g_nops;
	int op = (int)(caseid % g_nops);
	int ops[64];
	int n = F_len[L];
	memcpy(ops, F_ops[L], (size_t)n * sizeof(int));
	ops[n++] = op;
	{
	    size_t off = 0;
	    for (int i = 0; i < n && off < sizeof(r->desc) - 80; ++i) {
		char nm[64];
		if (vf_drv.op_name)
		    vf_drv.op_name(g_tier, ops[i], nm, sizeof(nm));
		else
		    snprintf(nm, sizeof(nm), "%d", ops[i]);
		off += (size_t)snprintf(r->desc + off, sizeof(r->desc) - off,
			"%s%s", i ? " ; " : "", nm);
	    }
	}
	vf_drv.run_hist(g_tier, ops, n, r);
    }
}

static long next_case(long caseid)
{
    /* cases of this shard: enum: idx % nshards == shard;
       bfs: frontier line % nshards == shard (all ops) */
    if (!vf_drv.bfs)
	return caseid + g_nshards;
    long L = caseid / g_nops;
    int op = (int)(caseid % g_nops);
    if (op + 1 < g_nops)
	return caseid + 1;
    return (L + g_nshards) * g_nops;
}

static long first_case(void)
{
    return vf_drv.bfs ? (long)vf_shard * g_nops : (long)vf_shard;
}

static long total_cases(void)
{
    return vf_drv.bfs ? F_n * g_nops : vf_drv.count(g_tier);
}

static void add_outcome(const char *o)
{
    if (o[0] == '\0')
	o = "-";
    for (int i = 0; i < A->noutcomes; ++i) {
	if (strcmp(A->outcomes[i], o) == 0) {
	    ++A->outcome_counts[i];
	    return;
	}
    }
    if (A->noutcomes < MAX_OUTCOMES) {
	snprintf(A->outcomes[A->noutcomes], 96, "%s", o);
	A->outcome_counts[A->noutcomes++] = 1;
    }
}

static void add_violation(long caseid, const char *sig, const char *msg,
	const char *desc, const char *log)
{
    ++A->viol_total;
    /* keep one entry per signature (the first, i.e. smallest case) */
    for (int i = 0; i < A->nviol; ++i)
	if (strcmp(A->viol[i].sig, sig) == 0)
	    return;
    if (A->nviol >= MAX_VIOL)
	return;
    viol_t *v = &A->viol[A->nviol++];
    memset(v, 0, sizeof(*v));
    v->caseid = caseid;
    snprintf(v->sig, sizeof(v->sig), "%s", sig);
    snprintf(v->msg, sizeof(v->msg), "%s", msg);
    snprintf(v->desc, sizeof(v->desc), "%s", desc);
    snprintf(v->log, sizeof(v->log), "%s", log ? log : "");
}

/* local dedup of bfs keys (private to the worker; python dedups globally) */
static uint64_t *seen_tab;
static size_t seen_size, seen_used;

static int seen_add(uint64_t h)
{
    if (h == 0)
	h = 1;
    if ((seen_used + 1) * 2 > seen_size) {
	size_t ns = seen_size ? seen_size * 2 : (1u << 16);
	uint64_t *nt = calloc(ns, sizeof(uint64_t));
	for (size_t i = 0; i < seen_size; ++i) {
	    if (seen_tab[i]) {
		size_t k = seen_tab[i] & (ns - 1);
		while (nt[k]) k = (k + 1) & (ns - 1);
		nt[k] = seen_tab[i];
	    }
	}
	free(seen_tab);
	seen_tab = nt;
	seen_size = ns;
    }
    size_t k = h & (seen_size - 1);
    while (seen_tab[k]) {
	if (seen_tab[k] == h)
	    return 0;
	k = (k + 1) & (seen_size - 1);
    }
    seen_tab[k] = h;
    ++seen_used;
    return 1;
}

static uint64_t fnv64(const char *s, uint64_t seed)
{
    uint64_t h = 0xcbf29ce484222325ULL ^ seed;
    for (; *s; ++s) {
	h ^= (unsigned char)*s;
	h *= 0x100000001b3ULL;
    }
    return h;
}

static void aggregate(long caseid, vf_result *r)
{
    ++A->done;
    A->transitions += r->transitions;
    A->states += r->states;
    if (r->nontrivial)
	++A->nontrivial;
    add_outcome(r->outcome);
    if (A->nsamples < MAX_SAMPLES && r->desc[0] != '\0' &&
	    (r->nontrivial || A->done > 50)) {
	/* take spaced samples: 1st non-trivial, then sparse */
	static long next_sample = 0;
	if (A->done >= next_sample) {
	    snprintf(A->samples[A->nsamples++], 700, "%s", r->desc);
	    next_sample = A->done * 7 + 3;
	}
    }
    if (r->status == VF_VIOL)
	add_violation(caseid, r->sig, r->msg, r->desc, NULL);
    if (vf_drv.bfs && g_states_fd >= 0 && r->status != VF_VIOL &&
	    !r->prune && r->key[0] != '\0') {
	uint64_t h1 = fnv64(r->key, 0), h2 = fnv64(r->key, 0x5bd1e995);
	if (seen_add(h1 ^ (h2 << 1))) {
	    char lab[400];
	    case_label(caseid, lab, sizeof(lab));
	    dprintf(g_states_fd, "%016llx%016llx %s\n",
		    (unsigned long long)h1, (unsigned long long)h2, lab);
	}
    }
}

/* ------------------------------------------------------------------ */
/* crash classification                                                */

static void read_errlog(char *buf, size_t n)
{
    buf[0] = '\0';
    FILE *fp = fopen(g_errpath, "r");
    if (fp == NULL)
	return;
    size_t k = fread(buf, 1, n - 1, fp);
    buf[k] = '\0';
    fclose(fp);
}

static void word_copy(char *dst, size_t n, const char *src)
{
    size_t i = 0;
    while (src[i] && !isspace((unsigned char)src[i]) && i + 1 < n) {
	dst[i] = src[i];
	++i;
    }
    dst[i] = '\0';
}

/* find first stack frame in libvna source (.../src/xxx.c) */
static void first_lib_frame(const char *log, char *func, size_t n)
{
    const char *p = log;

    func[0] = '\0';
    while ((p = strstr(p, " in ")) != NULL) {
	const char *eol = strchr(p, '\n');
	if (eol == NULL)
	    eol = p + strlen(p);
	const char *src = strstr(p, "/src/");
	const char *vf = strstr(p, "/verif/");
	if (src != NULL && src < eol && !(vf != NULL && vf < eol)) {
	    word_copy(func, n, p + 4);
	    return;
	}
	p = eol;
    }
}

static void classify_crash(int wstatus, char *sig, size_t sn, char *msg,
	size_t mn, char *log, size_t ln)
{
    char func[100];

    read_errlog(log, ln);
    const char *p;
    if ((p = strstr(log, "ERROR: AddressSanitizer: ")) != NULL) {
	char kind[64];
	word_copy(kind, sizeof(kind), p + strlen("ERROR: AddressSanitizer: "));
	first_lib_frame(p, func, sizeof(func));
	snprintf(sig, sn, "asan:%s:%s", kind, func[0] ? func : "?");
	snprintf(msg, mn, "AddressSanitizer %s in %s", kind,
		func[0] ? func : "?");
    } else if ((p = strstr(log, "runtime error: ")) != NULL) {
	char text[80];
	size_t i = 0;
	const char *q = p + strlen("runtime error: ");
	while (q[i] && q[i] != '\n' && i + 1 < sizeof(text)) {
	    text[i] = isdigit((unsigned char)q[i]) ? '#' : q[i];
	    ++i;
	}
	text[i] = '\0';
	/* file name precedes: path:line:col: runtime error */
	const char *bol = p;
	while (bol > log && bol[-1] != '\n') --bol;
	char file[100];
	const char *slash = bol;
	for (const char *c = bol; c < p; ++c)
	    if (*c == '/') slash = c + 1;
	size_t k = 0;
	while (slash[k] && slash[k] != ':' && k + 1 < sizeof(file)) {
	    file[k] = slash[k];
	    ++k;
	}
	file[k] = '\0';
	snprintf(sig, sn, "ubsan:%s:%.50s", file, text);
	snprintf(msg, mn, "UndefinedBehaviorSanitizer: %.*s",
		(int)(strcspn(bol, "\n")), bol);
    } else if ((p = strstr(log, "Assertion `")) != NULL) {
	char expr[100];
	size_t i = 0;
	const char *q = p + strlen("Assertion `");
	while (q[i] && q[i] != '\'' && i + 1 < sizeof(expr)) {
	    expr[i] = q[i];
	    ++i;
	}
	expr[i] = '\0';
	snprintf(sig, sn, "assert:%s", expr);
	snprintf(msg, mn, "assertion failed: %s", expr);
    } else if (WIFSIGNALED(wstatus) && WTERMSIG(wstatus) == SIGALRM) {
	snprintf(sig, sn, "hang");
	snprintf(msg, mn, "call did not return within the watchdog limit");
    } else if (WIFSIGNALED(wstatus)) {
	snprintf(sig, sn, "signal:%d", WTERMSIG(wstatus));
	snprintf(msg, mn, "worker killed by signal %d", WTERMSIG(wstatus));
    } else {
	snprintf(sig, sn, "exit:%d", WEXITSTATUS(wstatus));
	snprintf(msg, mn, "worker exited with status %d",
		WEXITSTATUS(wstatus));
    }
}

static void redirect_stderr(void)
{
    int fd = open(g_errpath, O_WRONLY | O_CREAT | O_TRUNC, 0644);
    if (fd >= 0) {
	dup2(fd, 2);
	close(fd);
    }
}

static void set_alarm(double seconds)
{
    struct itimerval it;
    memset(&it, 0, sizeof(it));
    it.it_value.tv_sec = (time_t)seconds;
    it.it_value.tv_usec = (suseconds_t)((seconds - floor(seconds)) * 1e6);
    setitimer(ITIMER_REAL, &it, NULL);
}

/*
 * run one case in a fresh process; fill sig/msg; returns 1 if violation
 */
static int run_isolated(long caseid, double timeout, char *sig, size_t sn,
	char *msg, size_t mn, char *desc, size_t dn, char *log, size_t ln)
{
    fflush(NULL);
    A->iso_valid = 0;
    A->iso.desc[0] = '\0';
    desc[0] = '\0';
    pid_t pid = fork();
    if (pid == 0) {
	redirect_stderr();
	signal(SIGALRM, SIG_DFL);
	set_alarm(timeout);
	/* result lives in shared memory so that what was filled in before
	   a crash (the case description) survives */
	run_case(caseid, &A->iso);
	set_alarm(0);
	A->iso_valid = 1;
	_exit(0);
    }
    int ws = 0;
    waitpid(pid, &ws, 0);
    log[0] = '\0';
    if (A->iso_valid && WIFEXITED(ws) && WEXITSTATUS(ws) == 0) {
	snprintf(desc, dn, "%s", A->iso.desc);
	if (A->iso.status == VF_VIOL) {
	    snprintf(sig, sn, "%s", A->iso.sig);
	    snprintf(msg, mn, "%s", A->iso.msg);
	    return 1;
	}
	sig[0] = '\0';
	msg[0] = '\0';
	return 0;
    }
    classify_crash(ws, sig, sn, msg, mn, log, ln);
    snprintf(desc, dn, "%s", A->iso.desc);
    return 1;
}

static void confirm_violations(void)
{
    double T = vf_drv.timeout_s > 0 ? vf_drv.timeout_s : 20.0;
    for (int i = 0; i < A->nviol; ++i) {
	viol_t *v = &A->viol[i];
	char s1[200], s2[200], m1[1600], m2[1600], d[700], l1[3000], l2[3000];
	int r1 = run_isolated(v->caseid, T * 20, s1, sizeof(s1), m1,
		sizeof(m1), d, sizeof(d), l1, sizeof(l1));
	int r2 = run_isolated(v->caseid, T * 20, s2, sizeof(s2), m2,
		sizeof(m2), d, sizeof(d), l2, sizeof(l2));
	if (!r1 && !r2) {
	    v->replayed = -2;	/* not reproducible in isolation */
	} else if (r1 != r2 || strcmp(s1, s2) != 0) {
	    v->replayed = -1;	/* flaky */
	} else {
	    v->replayed = 1;
	    snprintf(v->sig, sizeof(v->sig), "%s", s1);
	    snprintf(v->msg, sizeof(v->msg), "%s", m1);
	    if (l1[0])
		snprintf(v->log, sizeof(v->log), "%s", l1);
	    if (d[0])
		snprintf(v->desc, sizeof(v->desc), "%s", d);
	}
    }
}

/* ------------------------------------------------------------------ */

static void json_str(FILE *fp, const char *s)
{
    fputc('"', fp);
    for (; *s; ++s) {
	unsigned char c = (unsigned char)*s;
	if (c == '"' || c == '\\')
	    fprintf(fp, "\\%c", c);
	else if (c == '\n')
	    fputs("\\n", fp);
	else if (c == '\t')
	    fputs("\\t", fp);
	else if (c < 0x20 || c >= 0x7f)
	    fprintf(fp, "\\u%04x", c);
	else
	    fputc(c, fp);
    }
    fputc('"', fp);
}

static void write_summary(double wall)
{
    char path[600];
    snprintf(path, sizeof(path), "%s.json", g_prefix);
    FILE *fp = fopen(path, "w");
    if (fp == NULL) {
	perror(path);
	exit(3);
    }
    fprintf(fp, "{\"property\":");
    json_str(fp, vf_drv.property);
    fprintf(fp, ",\"shard\":%d,\"nshards\":%d,\"tier\":%d,\"bfs\":%d,"
	    "\"total_cases\":%ld,\"done\":%ld,\"nontrivial\":%ld,"
	    "\"transitions\":%ld,\"states\":%ld,\"viol_total\":%ld,"
	    "\"complete\":%d,\"wall_s\":%.3f,\"rule\":",
	    vf_shard, g_nshards, g_tier, vf_drv.bfs, total_cases(),
	    A->done, A->nontrivial, A->transitions, A->states,
	    A->viol_total, A->complete, wall);
    json_str(fp, vf_drv.rule ? vf_drv.rule : "");
    fprintf(fp, ",\"outcomes\":{");
    for (int i = 0; i < A->noutcomes; ++i) {
	if (i) fputc(',', fp);
	json_str(fp, A->outcomes[i]);
	fprintf(fp, ":%ld", A->outcome_counts[i]);
    }
    fprintf(fp, "},\"samples\":[");
    for (int i = 0; i < A->nsamples; ++i) {
	if (i) fputc(',', fp);
	json_str(fp, A->samples[i]);
    }
    fprintf(fp, "],\"violations\":[");
    for (int i = 0; i < A->nviol; ++i) {
	viol_t *v = &A->viol[i];
	char lab[400];
	case_label(v->caseid, lab, sizeof(lab));
	if (i) fputc(',', fp);
	fprintf(fp, "{\"case\":");
	json_str(fp, lab);
	fprintf(fp, ",\"replayed\":%d,\"sig\":", v->replayed);
	json_str(fp, v->sig);
	fprintf(fp, ",\"msg\":");
	json_str(fp, v->msg);
	fprintf(fp, ",\"desc\":");
	json_str(fp, v->desc);
	fprintf(fp, ",\"log\":");
	json_str(fp, v->log);
	fputc('}', fp);
    }
    fprintf(fp, "]}\n");
    fclose(fp);
}

static void load_frontier(const char *path)
{
    FILE *fp = fopen(path, "r");
    if (fp == NULL) {
	perror(path);
	exit(3);
    }
    char *line = NULL;
    size_t cap = 0;
    long n = 0, alloc = 0;
    while (getline(&line, &cap, fp) >= 0) {
	if (n >= alloc) {
	    alloc = alloc ? alloc * 2 : 1024;
	    F_ops = realloc(F_ops, (size_t)alloc * sizeof(int *));
	    F_len = realloc(F_len, (size_t)alloc * sizeof(int));
	}
	int tmp[64], k = 0;
	char *s = line, *e;
	for (;;) {
	    long v = strtol(s, &e, 10);
	    if (e == s)
		break;
	    if (k < 63)
		tmp[k++] = (int)v;
	    s = e;
	}
	F_ops[n] = malloc((size_t)(k ? k : 1) * sizeof(int));
	memcpy(F_ops[n], tmp, (size_t)k * sizeof(int));
	F_len[n] = k;
	++n;
    }
    free(line);
    fclose(fp);
    F_n = n;
}

static int batch_loop(void)
{
    double T = vf_drv.timeout_s > 0 ? vf_drv.timeout_s : 20.0;
    long total = total_cases();
    long next = first_case();
    double t0 = now_s();

    A->complete = 1;
    while (next < total) {
	fflush(NULL);
	A->cur = next;
	pid_t pid = fork();
	if (pid < 0) {
	    perror("fork");
	    exit(3);
	}
	if (pid == 0) {
	    redirect_stderr();
	    signal(SIGALRM, SIG_DFL);
	    vf_result *r = malloc(sizeof(*r));
	    for (long c = next; c < total; c = next_case(c)) {
		if (g_deadline > 0 && now_s() > g_deadline) {
		    A->complete = 0;
		    break;
		}
		A->cur = c;
		set_alarm(T);
		run_case(c, r);
		set_alarm(0);
		aggregate(c, r);
	    }
	    _exit(0);
	}
	int ws = 0;
	waitpid(pid, &ws, 0);
	if (WIFEXITED(ws) && WEXITSTATUS(ws) == 0)
	    break;
	/* the worker died while running case A->cur */
	long bad = A->cur;
	char sig[200], msg[1600], log[3000], desc[700];
	if (WIFSIGNALED(ws) && WTERMSIG(ws) == SIGALRM) {
	    /* re-run alone with a 20x limit before calling it a hang */
	    int v = run_isolated(bad, T * 20, sig, sizeof(sig), msg,
		    sizeof(msg), desc, sizeof(desc), log, sizeof(log));
	    ++A->done;
	    if (v)
		add_violation(bad, sig, msg, desc, log);
	} else {
	    classify_crash(ws, sig, sizeof(sig), msg, sizeof(msg), log,
		    sizeof(log));
	    ++A->done;
	    add_outcome("crash");
	    add_violation(bad, sig, msg, "", log);
	}
	next = next_case(bad);
    }
    confirm_violations();
    write_summary(now_s() - t0);
    return 0;
}

static void usage(void)
{
    fprintf(stderr, "usage: driver count <tier> | run <tier> <shard> "
	    "<nshards> <prefix> | bfs <tier> <frontier> <shard> <nshards> "
	    "<prefix> | one <tier> <idx> | hist <tier> <ops...> | info <tier>\n");
    exit(3);
}

int main(int argc, char **argv)
{
    const char *s;

    if ((s = getenv("VERIF_SEED")) != NULL && *s)
	vf_seed = strtoull(s, NULL, 10);
    if (argc < 3)
	usage();
    g_tier = atoi(argv[2]);
    A = mmap(NULL, sizeof(agg_t), PROT_READ | PROT_WRITE,
	    MAP_SHARED | MAP_ANONYMOUS, -1, 0);
    if (A == MAP_FAILED) {
	perror("mmap");
	return 3;
    }
    memset(A, 0, sizeof(*A));
    if ((s = getenv("VF_DEADLINE_S")) != NULL && *s)
	g_deadline = now_s() + atof(s);

    if (strcmp(argv[1], "count") == 0) {
	if (vf_drv.init) vf_drv.init(g_tier);
	if (vf_drv.bfs) {
	    /* key of the initial state (empty history) */
	    vf_result *r = calloc(1, sizeof(*r));
	    snprintf(g_prefix, sizeof(g_prefix), "/var/tmp/vf-init-%d",
		    (int)getpid());
	    char dir[600];
	    snprintf(dir, sizeof(dir), "%s.d", g_prefix);
	    mkdir(dir, 0755);
	    vf_drv.run_hist(g_tier, NULL, 0, r);
	    snprintf(dir, sizeof(dir), "rm -rf '%s.d'", g_prefix);
	    if (system(dir) != 0)
		;
	    printf("{\"bfs\":1,\"nops\":%d,\"maxdepth\":%d,"
		    "\"init\":\"%016llx%016llx\"}\n",
		    vf_drv.nops(g_tier), vf_drv.maxdepth(g_tier),
		    (unsigned long long)fnv64(r->key, 0),
		    (unsigned long long)fnv64(r->key, 0x5bd1e995));
	}
	else
	    printf("{\"bfs\":0,\"count\":%ld}\n", vf_drv.count(g_tier));
	return 0;
    }
    if (strcmp(argv[1], "run") == 0 && argc == 6 && !vf_drv.bfs) {
	vf_shard = atoi(argv[3]);
	g_nshards = atoi(argv[4]);
	snprintf(g_prefix, sizeof(g_prefix), "%s", argv[5]);
    } else if (strcmp(argv[1], "bfs") == 0 && argc == 7 && vf_drv.bfs) {
	load_frontier(argv[3]);
	vf_shard = atoi(argv[4]);
	g_nshards = atoi(argv[5]);
	snprintf(g_prefix, sizeof(g_prefix), "%s", argv[6]);
    } else if (strcmp(argv[1], "one") == 0 && argc == 4 && !vf_drv.bfs) {
	snprintf(g_prefix, sizeof(g_prefix), "/var/tmp/vf-one-%d",
		(int)getpid());
	vf_verbose = 1;
    } else if (strcmp(argv[1], "hist") == 0 && vf_drv.bfs) {
	snprintf(g_prefix, sizeof(g_prefix), "/var/tmp/vf-one-%d",
		(int)getpid());
	vf_verbose = 1;
    } else {
	usage();
    }
    {
	char dir[600];
	snprintf(dir, sizeof(dir), "%s.d", g_prefix);
	mkdir(dir, 0755);
	snprintf(g_errpath, sizeof(g_errpath), "%s.err", g_prefix);
    }
    if (vf_drv.init) vf_drv.init(g_tier);
    if (vf_drv.bfs)
	g_nops = vf_drv.nops(g_tier);

    if (vf_verbose) {
	vf_result *r = calloc(1, sizeof(*r));
	if (!vf_drv.bfs) {
	    vf_drv.run(g_tier, atol(argv[3]), r);
	} else {
	    int ops[64], n = 0;
	    for (int i = 3; i < argc && n < 64; ++i)
		ops[n++] = atoi(argv[i]);
	    /* describe */
	    for (int i = 0; i < n; ++i) {
		char nm[64];
		if (vf_drv.op_name)
		    vf_drv.op_name(g_tier, ops[i], nm, sizeof(nm));
		else
		    snprintf(nm, sizeof(nm), "%d", ops[i]);
		printf("op[%d] = %s\n", i, nm);
	    }
	    vf_drv.run_hist(g_tier, ops, n, r);
	}
	printf("desc: %s\noutcome: %s\nnontrivial: %d\n", r->desc,
		r->outcome, r->nontrivial);
	if (vf_drv.bfs)
	    printf("key: %.300s\n", r->key);
	char cmd[700];
	snprintf(cmd, sizeof(cmd), "rm -rf '%s.d' '%s.err'", g_prefix,
		g_prefix);
	if (system(cmd) != 0)
	    ;
	if (r->status == VF_VIOL) {
	    printf("RESULT: VIOLATION sig=%s\n  %s\n", r->sig, r->msg);
	    return 1;
	}
	printf("RESULT: ok\n");
	return 0;
    }
    if (vf_drv.bfs) {
	char path[600];
	snprintf(path, sizeof(path), "%s.states", g_prefix);
	g_states_fd = open(path, O_WRONLY | O_CREAT | O_TRUNC | O_APPEND, 0644);
	if (g_states_fd < 0) {
	    perror(path);
	    return 3;
	}
    }
    return batch_loop();
}
