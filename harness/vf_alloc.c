/*
 * vf_alloc.c: counting / fault-injecting allocator behind vf_shim.h
 * (libvna sites) and behind the renamed libyaml symbols (yl_*).
 *
 * Every live block is remembered with its allocation site, so that after
 * the teardown of one explored execution the harness can ask "what is
 * still allocated, and where was it allocated?".
 */
#define _GNU_SOURCE
#include <errno.h>
#include <stdarg.h>
#include <stdint.h>
#include <stdio.h>
#include <stdlib.h>
#include <string.h>
#include "vf_alloc.h"

typedef struct {
    void *ptr;
    const char *file;
    int line;
    int origin;			/* 0 = libvna, 1 = libyaml */
    unsigned long serial;
} slot_t;

static slot_t *table;
static size_t table_size;	/* power of two */
static size_t table_used;	/* including tombstones */
static long live[2];
#define TOMB ((void *)1)

/* fault injection: the fail_at'th libvna allocation (1-based) fails */
long vf_alloc_calls;
long vf_alloc_fail_at;
long vf_alloc_fail_at2;
int  vf_alloc_failed;		/* number of injected failures so far */
static unsigned long serial;
static unsigned long g_mark;		/* serial at the last vf_alloc_mark */
static long g_live_after_mark;	/* live blocks allocated since then */

static size_t hashp(void *p)
{
    uint64_t x = (uint64_t)(uintptr_t)p;
    x ^= x >> 33; x *= 0xff51afd7ed558ccdULL; x ^= x >> 33;
    return (size_t)x;
}

static void grow(void)
{
    /* rehash at the same size when the table is mostly tombstones */
    size_t nlive = (size_t)(live[0] + live[1]);
    size_t nsize = !table_size ? 4096 :
	(nlive * 4 > table_size ? table_size * 2 : table_size);
    slot_t *old = table;
    size_t osize = table_size;

    table = (calloc)(nsize, sizeof(slot_t));
    if (table == NULL) {
	(void)fprintf(stderr, "vf_alloc: out of memory\n");
	abort();
    }
    table_size = nsize;
    table_used = 0;
    for (size_t i = 0; i < osize; ++i) {
	if (old[i].ptr != NULL && old[i].ptr != TOMB) {
	    size_t h = hashp(old[i].ptr) & (nsize - 1);
	    while (table[h].ptr != NULL)
		h = (h + 1) & (nsize - 1);
	    table[h] = old[i];
	    ++table_used;
	}
    }
    (free)(old);
}

static void remember(void *p, const char *file, int line, int origin)
{
    if (p == NULL)
	return;
    if ((table_used + 1) * 2 > table_size)
	grow();
    size_t h = hashp(p) & (table_size - 1);
    while (table[h].ptr != NULL && table[h].ptr != TOMB)
	h = (h + 1) & (table_size - 1);
    if (table[h].ptr == NULL)
	++table_used;
    table[h].ptr = p;
    table[h].file = file;
    table[h].line = line;
    table[h].origin = origin;
    table[h].serial = ++serial;
    ++live[origin];
    ++g_live_after_mark;
}

/* returns origin or -1 if unknown */
static int forget(void *p)
{
    if (p == NULL || table_size == 0)
	return -1;
    size_t h = hashp(p) & (table_size - 1);
    while (table[h].ptr != NULL) {
	if (table[h].ptr == p) {
	    int o = table[h].origin;
	    table[h].ptr = TOMB;
	    --live[o];
	    if (table[h].serial > g_mark)
		--g_live_after_mark;
	    return o;
	}
	h = (h + 1) & (table_size - 1);
    }
    return -1;
}

static int inject(void)
{
    ++vf_alloc_calls;
    if (vf_alloc_calls == vf_alloc_fail_at ||
	vf_alloc_calls == vf_alloc_fail_at2) {
	++vf_alloc_failed;
	errno = ENOMEM;
	return 1;
    }
    return 0;
}

void *vf_malloc(size_t n, const char *file, int line)
{
    if (inject())
	return NULL;
    void *p = (malloc)(n);
    remember(p, file, line, 0);
    return p;
}

void *vf_calloc(size_t a, size_t b, const char *file, int line)
{
    if (inject())
	return NULL;
    void *p = (calloc)(a, b);
    remember(p, file, line, 0);
    return p;
}

void *vf_realloc(void *old, size_t n, const char *file, int line)
{
    if (inject())
	return NULL;
    /*
     * realloc(p, 0) frees p and may return NULL; treat as in glibc.
     */
    if (old != NULL && forget(old) < 0) {
	(void)fprintf(stderr, "vf_alloc: realloc of untracked block %p at "
		"%s:%d\n", old, file, line);
	abort();
    }
    void *p = (realloc)(old, n);
    if (p == NULL && n != 0 && old != NULL) {
	remember(old, file, line, 0);
	return NULL;
    }
    remember(p, file, line, 0);
    return p;
}

char *vf_strdup(const char *s, const char *file, int line)
{
    if (inject())
	return NULL;
    char *p = (strdup)(s);
    remember(p, file, line, 0);
    return p;
}

int vf_vasprintf(char **sp, const char *fmt, va_list ap,
	const char *file, int line)
{
    if (inject()) {
	*sp = NULL;
	return -1;
    }
    int rc = (vasprintf)(sp, fmt, ap);
    if (rc >= 0)
	remember(*sp, file, line, 0);
    return rc;
}

void vf_free(void *p)
{
    if (p == NULL)
	return;
    (void)forget(p);	/* untracked: user-allocated block, pass through */
    (free)(p);
}

/* libyaml's allocator (symbols renamed with objcopy) */
void *yl_malloc(size_t n)
{
    void *p = (malloc)(n);
    remember(p, "libyaml", 0, 1);
    return p;
}

void *yl_realloc(void *old, size_t n)
{
    if (old != NULL)
	(void)forget(old);
    void *p = (realloc)(old, n);
    if (p == NULL && n != 0 && old != NULL) {
	remember(old, "libyaml", 0, 1);
	return NULL;
    }
    remember(p, "libyaml", 0, 1);
    return p;
}

void yl_free(void *p)
{
    if (p == NULL)
	return;
    (void)forget(p);
    (free)(p);
}

char *yl_strdup(const char *s)
{
    char *p = (strdup)(s);
    remember(p, "libyaml", 0, 1);
    return p;
}

long vf_live(int origin)
{
    return live[origin];
}

long vf_live_total(void)
{
    return live[0] + live[1];
}

unsigned long vf_alloc_mark(void)
{
    g_mark = serial;
    g_live_after_mark = 0;
    return serial;
}

/*
 * vf_leak_report: describe blocks allocated after `mark' that are still
 * live (up to a few sites); returns the number of such blocks.
 */
int vf_leak_report(unsigned long mark, char *buf, size_t n)
{
    int count = 0;
    size_t off = 0;

    if (n > 0)
	buf[0] = '\0';
    if (mark == g_mark && g_live_after_mark == 0)
	return 0;		/* fast path: nothing allocated since is live */
    for (size_t i = 0; i < table_size; ++i) {
	if (table[i].ptr == NULL || table[i].ptr == TOMB)
	    continue;
	if (table[i].serial <= mark)
	    continue;
	++count;
	if (count <= 4 && off < n) {
	    const char *f = strrchr(table[i].file, '/');
	    f = f ? f + 1 : table[i].file;
	    int k = snprintf(buf + off, n - off, "%s%s:%d", off ? "," : "",
		    f, table[i].line);
	    if (k > 0)
		off += (size_t)k;
	}
    }
    return count;
}

/*
 * vf_leak_discard: forget (and free) blocks allocated after mark so that one
 * leaking execution does not poison the accounting of the next.
 */
void vf_leak_discard(unsigned long mark)
{
    for (size_t i = 0; i < table_size; ++i) {
	if (table[i].ptr == NULL || table[i].ptr == TOMB)
	    continue;
	if (table[i].serial <= mark)
	    continue;
	--live[table[i].origin];
	if (table[i].serial > g_mark)
	    --g_live_after_mark;
	/* intentionally not freed: pointer may still be referenced */
	table[i].ptr = TOMB;
    }
}

void vf_fault_reset(void)
{
    vf_alloc_calls = 0;
    vf_alloc_fail_at = 0;
    vf_alloc_fail_at2 = 0;
    vf_alloc_failed = 0;
}
