/*
 * vf_alloc.c: counting / fault-injecting allocator behind vf_shim.h
 * (libvna sites) and behind the renamed libyaml symbols (yl_*).
 *
 * Every live block is remembered with its allocation site, so that after
 * the teardown of one explored execution the harness can ask "what is
 * still allocated, and where was it allocated?".
 */
#define _GNU_SOURCE
#include <errno.h>
#include <stdarg.h>
#include <stdint.h>
#include <stdio.h>
#include <stdlib.h>
#include <string.h>
#include "vf_alloc.h"

typedef struct {
    void *ptr;
    const char *file;
    int line;
    int origin;			/* 0 = libvna, 1 = libyaml */
    unsigned long serial;
} slot_t;

static slot_t *table;
static size_t table_size;	/* power of two */
static size_t table_used;	/* including tombstones */
static long live[2];
#define TOMB ((void *)1)

/* fault injection: the fail_at'th libvna allocation (1-based) fails */
long vf_alloc_calls;
long vf_alloc_fail_at;
long vf_alloc_fail_at2;
int  vf_alloc_failed;		/* number of injected failures so far */
static unsigned long serial;
static unsigned long g_mark;		/* serial at the last vf_alloc_mark */
static long g_live_after_mark;	/* live blocks allocated since then */

static size_t hashp(void *p)
{
    uint64_t x = (uint64_t)(uintptr_t)p;
    x ^= x >> 33; x *= 0xff51afd7ed558ccdULL; x ^= x >> 33;
    return (size_t)x;
}

static void grow(void)
{
    /* rehash at the same size when the table is mostly tombstones */
    size_t nlive = (size_t)(live[0] + live[1]);
    size_t nsize = !table_size ? 4096 :
	(nlive * 4 > table_size ? table_size * 2 : table_size);
    slot_t *old = table;
    size_t osize = table_size;

    table = (calloc)(nsize, sizeof(slot_t));
    if (table == NULL) {
	(void)fprintf(stderr, "vf_alloc: out of memory\n");
	abort();
    }
    table_size = nsize;
    table_used = 0;
    for (size_t i = 0; i < osize; ++i) {
	if (old[i].ptr != NULL && old[i].ptr != TOMB) {
	    size_t h = hashp(old[i].ptr) & (nsize - 1);
	    while (table[h].ptr != NULL)
		h = (h + 1) & (nsize - 1);
	    table[h] = old[i];
	    ++table_used;
	}
    }
    (free)(old);
}

static void remember(void *p, const char *file, int line, int origin)
{
    if (p == NULL)
	return;
    if ((table_used + 1) * 2 > table_size)
	grow();
    size_t h = hashp(p) & (table_size - 1);
    while (table[h].ptr != NULL && table[h].ptr != TOMB)
	h = (h + 1) & (table_size - 1);
    if (table[h].ptr == NULL)
	++table_used;
    table[h].ptr = p;
    table[h].file = file;
    table[h].line = line;
    table[h].origin = origin;
    table[h].serial = ++serial;
    ++live[origin];
    ++g_live_after_mark;
}

/* returns origin or -1 if unknown */
static int forget(void *p)
{
    if (p == NULL || table_size == 0)
	return -1;
    size_t h = hashp(p) & (table_size - 1);
    while (table[h].ptr != NULL) {
	if (table[h].ptr == p) {
	    int o = table[h].origin;
	    table[h].ptr = TOMB;
	    --live[o];
	    if (table[h].serial > g_mark)
		--g_live_after_mark;
	    return o;
	}
	h = (h + 1) & (table_size - 1);
    }
    return -1;
}

/*
 * vf_alloc_mode selects which sites are numbered and can fail: 0 libvna's
 * own allocations (default), 1 those libyaml makes on libvna's behalf.
 */
int vf_alloc_mode;

static int inject_at(int origin)
{
    if (origin != vf_alloc_mode)
	return 0;
    ++vf_alloc_calls;
    if (vf_alloc_calls == vf_alloc_fail_at ||
	vf_alloc_calls == vf_alloc_fail_at2) {
	++vf_alloc_failed;
	errno = ENOMEM;
	return 1;
    }
    return 0;
}

void *vf_malloc(size_t n, const char *file, int line)
{
    if (inject_at(0))
	return NULL;
    void *p = (malloc)(n);
    remember(p, file, line, 0);
    return p;
}

void *vf_calloc(size_t a, size_t b, const char *file, int line)
{
    if (inject_at(0))
	return NULL;
    void *p = (calloc)(a, b);
    remember(p, file, line, 0);
    return p;
}

void *vf_realloc(void *old, size_t n, const char *file, int line)
{
    if (inject_at(0))
	return NULL;
    /*
     * realloc(p, 0) frees p and may return NULL; treat as in glibc.
     */
    if (old != NULL && forget(old) < 0) {
	(void)fprintf(stderr, "vf_alloc: realloc of untracked block %p at "
		"%s:%d\n", old, file, line);
	abort();
    }
    void *p = (realloc)(old, n);
    if (p == NULL && n != 0 && old != NULL) {
	remember(old, file, line, 0);
	return NULL;
    }
    remember(p, file, line, 0);
    return p;
}

char *vf_strdup(const char *s, const char *file, int line)
{
    if (inject_at(0))
	return NULL;
    char *p = (strdup)(s);
    remember(p, file, line, 0);
    return p;
}

int vf_vasprintf(char **sp, const char *fmt, va_list ap,
	const char *file, int line)
{
    if (inject_at(0)) {
	*sp = NULL;
	return -1;
    }
    int rc = (vasprintf)(sp, fmt, ap);
    if (rc >= 0)
	remember(*sp, file, line, 0);
    return rc;
}

void vf_free(void *p)
{
    if (p == NULL)
	return;
    (void)forget(p);	/* untracked: user-allocated block, pass through */
    (free)(p);
}

/* libyaml's allocator (symbols renamed with objcopy) */
void *yl_malloc(size_t n)
{
    if (inject_at(1))
	return NULL;
    void *p = (malloc)(n);
    remember(p, "libyaml", 0, 1);
    return p;
}

void *yl_realloc(void *old, size_t n)
{
    if (inject_at(1))
	return NULL;
    if (old != NULL)
	(void)forget(old);
    void *p = (realloc)(old, n);
    if (p == NULL && n != 0 && old != NULL) {
	remember(old, "libyaml", 0, 1);
	return NULL;
    }
    remember(p, "libyaml", 0, 1);
    return p;
}

void yl_free(void *p)
{
    if (p == NULL)
	return;
    (void)forget(p);
    (free)(p);
}

char *yl_strdup(const char *s)
{
    if (inject_at(1))
	return NULL;
    char *p = (strdup)(s);
    remember(p, "libyaml", 0, 1);
    return p;
}

long vf_live(int origin)
{
    return live[origin];
}

long vf_live_total(void)
{
    return live[0] + live[1];
}

unsigned long vf_alloc_mark(void)
{
    g_mark = serial;
    g_live_after_mark = 0;
    return serial;
}

/*
 * vf_leak_report: describe blocks allocated after `mark' that are still
 * live (up to a few sites); returns the number of such blocks.
 */
int vf_leak_report(unsigned long mark, char *buf, size_t n)
{
    int count = 0;
    size_t off = 0;

    if (n > 0)
	buf[0] = '\0';
    if (mark == g_mark && g_live_after_mark == 0)
	return 0;		/* fast path: nothing allocated since is live */
    for (size_t i = 0; i < table_size; ++i) {
	if (table[i].ptr == NULL || table[i].ptr == TOMB)
	    continue;
	if (table[i].serial <= mark)
	    continue;
	++count;
	if (count <= 4 && off < n) {
	    const char *f = strrchr(table[i].file, '/');
	    f = f ? f + 1 : table[i].file;
	    int k = snprintf(buf + off, n - off, "%s%s:%d", off ? "," : "",
		    f, table[i].line);
	    if (k > 0)
		off += (size_t)k;
	}
    }
    return count;
}

/* number of blocks of the given origin allocated after mark and still live */
int vf_leak_count_origin(unsigned long mark, int origin)
{
    int count = 0;

    for (size_t i = 0; i < table_size; ++i) {
	if (table[i].ptr == NULL || table[i].ptr == TOMB)
	    continue;
	if (table[i].serial <= mark || table[i].origin != origin)
	    continue;
	++count;
    }
    return count;
}

/*
 * vf_leak_discard: forget (and free) blocks allocated after mark so that one
 * leaking execution does not poison the accounting of the next.
 */
void vf_leak_discard(unsigned long mark)
{
    for (size_t i = 0; i < table_size; ++i) {
	if (table[i].ptr == NULL || table[i].ptr == TOMB)
	    continue;
	if (table[i].serial <= mark)
	    continue;
	--live[table[i].origin];
	if (table[i].serial > g_mark)
	    --g_live_after_mark;
	/* intentionally not freed: pointer may still be referenced */
	table[i].ptr = TOMB;
    }
}

void vf_fault_reset(void)
{
    vf_alloc_calls = 0;
    vf_alloc_fail_at = 0;
    vf_alloc_fail_at2 = 0;
    vf_alloc_failed = 0;
}

/*
 * libyaml life-cycle accounting.  The private libyaml has these entry points
 * renamed to yl_real_*; the wrappers below keep the set of parsers, emitters
 * and documents that were initialised and not yet deleted.  A caller that
 * returns with an object still in the set has leaked it, whatever libyaml's
 * own error paths do with their blocks.
 */
#include <yaml.h>
extern int yl_real_yaml_parser_initialize(yaml_parser_t *);
extern void yl_real_yaml_parser_delete(yaml_parser_t *);
extern int yl_real_yaml_emitter_initialize(yaml_emitter_t *);
extern void yl_real_yaml_emitter_delete(yaml_emitter_t *);
extern int yl_real_yaml_document_initialize(yaml_document_t *,
	yaml_version_directive_t *, yaml_tag_directive_t *,
	yaml_tag_directive_t *, int, int);
extern void yl_real_yaml_document_delete(yaml_document_t *);
extern int yl_real_yaml_parser_load(yaml_parser_t *, yaml_document_t *);
extern int yl_real_yaml_emitter_dump(yaml_emitter_t *, yaml_document_t *);

#define YL_MAXLIVE 32
static const void *yl_live[3][YL_MAXLIVE];	/* parser, emitter, document */

static int yl_lost[3];	/* initialised again without having been deleted */

static void yl_add(int kind, const void *p)
{
    for (int i = 0; i < YL_MAXLIVE; ++i)
	if (yl_live[kind][i] == p) {
	    /* same address (a local of a function called again): the
	       earlier incarnation was never deleted */
	    ++yl_lost[kind];
	    return;
	}
    for (int i = 0; i < YL_MAXLIVE; ++i)
	if (yl_live[kind][i] == NULL) {
	    yl_live[kind][i] = p;
	    return;
	}
}

static void yl_del(int kind, const void *p)
{
    for (int i = 0; i < YL_MAXLIVE; ++i)
	if (yl_live[kind][i] == p)
	    yl_live[kind][i] = NULL;
}

/* number of libyaml objects of the kind initialised and not deleted */
int vf_yaml_live(int kind)
{
    int n = yl_lost[kind];
    for (int i = 0; i < YL_MAXLIVE; ++i)
	if (yl_live[kind][i] != NULL)
	    ++n;
    return n;
}

void vf_yaml_forget(void)
{
    memset(yl_live, 0, sizeof(yl_live));
    memset(yl_lost, 0, sizeof(yl_lost));
}

int yaml_parser_initialize(yaml_parser_t *parser)
{
    int rc = yl_real_yaml_parser_initialize(parser);
    if (rc)
	yl_add(0, parser);
    return rc;
}

void yaml_parser_delete(yaml_parser_t *parser)
{
    yl_del(0, parser);
    yl_real_yaml_parser_delete(parser);
}

int yaml_emitter_initialize(yaml_emitter_t *emitter)
{
    int rc = yl_real_yaml_emitter_initialize(emitter);
    if (rc)
	yl_add(1, emitter);
    return rc;
}

void yaml_emitter_delete(yaml_emitter_t *emitter)
{
    yl_del(1, emitter);
    yl_real_yaml_emitter_delete(emitter);
}

int yaml_document_initialize(yaml_document_t *document,
	yaml_version_directive_t *version,
	yaml_tag_directive_t *tags_start, yaml_tag_directive_t *tags_end,
	int start_implicit, int end_implicit)
{
    int rc = yl_real_yaml_document_initialize(document, version, tags_start,
	    tags_end, start_implicit, end_implicit);
    if (rc)
	yl_add(2, document);
    return rc;
}

void yaml_document_delete(yaml_document_t *document)
{
    yl_del(2, document);
    yl_real_yaml_document_delete(document);
}

int yaml_parser_load(yaml_parser_t *parser, yaml_document_t *document)
{
    int rc = yl_real_yaml_parser_load(parser, document);
    if (rc)
	yl_add(2, document);	/* on failure libyaml deleted it itself */
    return rc;
}

int yaml_emitter_dump(yaml_emitter_t *emitter, yaml_document_t *document)
{
    yl_del(2, document);	/* consumed whether or not the dump works */
    return yl_real_yaml_emitter_dump(emitter, document);
}
