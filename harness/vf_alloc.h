#ifndef VF_ALLOC_H
#define VF_ALLOC_H
#include <stddef.h>
#include <stdarg.h>
extern long vf_alloc_calls, vf_alloc_fail_at, vf_alloc_fail_at2;
extern int vf_alloc_failed;
extern void vf_free(void *p);
extern long vf_live(int origin);
extern long vf_live_total(void);
extern unsigned long vf_alloc_mark(void);
extern int vf_leak_report(unsigned long mark, char *buf, size_t n);
extern void vf_leak_discard(unsigned long mark);
extern void vf_fault_reset(void);
#endif
