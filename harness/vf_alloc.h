#ifndef VF_ALLOC_H
#define VF_ALLOC_H
#include <stddef.h>
#include <stdarg.h>
extern long vf_alloc_calls, vf_alloc_fail_at, vf_alloc_fail_at2;
extern int vf_alloc_failed;
/* libyaml parsers (0), emitters (1), documents (2) initialised and not
   deleted; vf_yaml_forget drops the record */
extern int vf_yaml_live(int kind);
extern void vf_yaml_forget(void);
extern int vf_alloc_mode;	/* 0: libvna sites fail, 1: libyaml sites fail */
extern void vf_free(void *p);
extern long vf_live(int origin);
extern long vf_live_total(void);
extern unsigned long vf_alloc_mark(void);
extern int vf_leak_report(unsigned long mark, char *buf, size_t n);
extern int vf_leak_count_origin(unsigned long mark, int origin);
extern void vf_leak_discard(unsigned long mark);
extern void vf_fault_reset(void);
#endif
