/*
 * vf_shim.h: injected with -include into libvna translation units only
 * (guard LIBVNA_VERIF, defined solely on the verification compile line).
 * Redirects the allocator entry points libvna uses to counting wrappers
 * so that every explored execution can be leak-checked on its own and a
 * chosen allocation can be made to fail.  No libvna source is modified.
 */
#ifndef VF_SHIM_H
#define VF_SHIM_H
#ifdef LIBVNA_VERIF
#include <stdlib.h>
#include <string.h>
#include <stdio.h>
#include <stdarg.h>

extern void *vf_malloc(size_t n, const char *file, int line);
extern void *vf_calloc(size_t a, size_t b, const char *file, int line);
extern void *vf_realloc(void *p, size_t n, const char *file, int line);
extern char *vf_strdup(const char *s, const char *file, int line);
extern int   vf_vasprintf(char **sp, const char *fmt, va_list ap,
			  const char *file, int line);
extern void  vf_free(void *p);

#define malloc(n)		vf_malloc((n), __FILE__, __LINE__)
#define calloc(a, b)		vf_calloc((a), (b), __FILE__, __LINE__)
#define realloc(p, n)		vf_realloc((p), (n), __FILE__, __LINE__)
#define strdup(s)		vf_strdup((s), __FILE__, __LINE__)
#define vasprintf(sp, f, ap)	vf_vasprintf((sp), (f), (ap), __FILE__, __LINE__)
#define free(p)			vf_free(p)
#endif /* LIBVNA_VERIF */
#endif /* VF_SHIM_H */
