/*
 * tsnpd.c: independent reader and writer for Touchstone 1 / 2 and NPD.
 * See tsnpd.h.  Nothing here is derived from libvna's parser or printer.
 */
#include <ctype.h>
#include <math.h>
#include <stdarg.h>
#include <stdio.h>
#include <stdlib.h>
#include <string.h>
#include "tsnpd.h"

#define TSNPD_PI 3.14159265358979323846264338327950288

/* ------------------------------------------------------------------ */
/* common helpers                                                      */

static int tsnpd_fail(tsnpd_net *o, const char *fmt, ...)
{
    va_list ap;
    va_start(ap, fmt);
    vsnprintf(o->err, sizeof(o->err), fmt, ap);
    va_end(ap);
    return -1;
}

double complex tsnpd_decode(char enc, double a, double b)
{
    switch (enc) {
    case 'M':
	return a * cexp(I * (b * TSNPD_PI / 180.0));
    case 'D':
	return pow(10.0, a / 20.0) * cexp(I * (b * TSNPD_PI / 180.0));
    default:
	return a + I * b;
    }
}

static char *tsnpd_slurp(const char *path, size_t *len)
{
    FILE *fp = fopen(path, "rb");
    char *buf;
    size_t n = 0, cap = 1 << 16;

    if (fp == NULL)
	return NULL;
    buf = malloc(cap + 1);
    for (;;) {
	size_t k = fread(buf + n, 1, cap - n, fp);
	n += k;
	if (k == 0)
	    break;
	if (n == cap) {
	    cap *= 2;
	    buf = realloc(buf, cap + 1);
	}
    }
    fclose(fp);
    buf[n] = '\0';
    *len = n;
    return buf;
}

static int tsnpd_number(const char *tok, double *v)
{
    char *end;
    if (*tok == '\0')
	return -1;
    *v = strtod(tok, &end);
    return (end != tok && *end == '\0') ? 0 : -1;
}

/* split on blanks; returns token count (tokens point into s) */
static int tsnpd_split(char *s, char **tok, int max)
{
    int n = 0;
    while (*s) {
	while (*s && isspace((unsigned char)*s))
	    ++s;
	if (!*s)
	    break;
	if (n < max)
	    tok[n] = s;
	++n;
	while (*s && !isspace((unsigned char)*s))
	    ++s;
	if (*s)
	    *s++ = '\0';
    }
    return n;
}

static void tsnpd_upper(char *s)
{
    for (; *s; ++s)
	*s = (char)toupper((unsigned char)*s);
}

/* ------------------------------------------------------------------ */
/* format specifiers (NPD "#:parameters")                              */

int tsnpd_parse_spec(const char *spec, int ports, tsnpd_form *f)
{
    char b[16];
    size_t n = strlen(spec);
    static const struct { const char *name; int kind; int per_port; } sc[] = {
	{ "PRC", TSNPD_K_PRC, 2 }, { "PRL", TSNPD_K_PRL, 2 },
	{ "SRC", TSNPD_K_SRC, 2 }, { "SRL", TSNPD_K_SRL, 2 },
	{ "RL", TSNPD_K_RL, 1 }, { "VSWR", TSNPD_K_VSWR, 1 },
    };

    if (n == 0 || n >= sizeof(b))
	return -1;
    strcpy(b, spec);
    tsnpd_upper(b);
    memset(f, 0, sizeof(*f));
    for (size_t i = 0; i < sizeof(sc) / sizeof(sc[0]); ++i) {
	if (strcmp(b, sc[i].name) == 0) {
	    f->kind = sc[i].kind;
	    f->nnum = sc[i].per_port * ports;
	    return 0;
	}
    }
    if (strcmp(b, "IL") == 0) {		/* one value per off-diagonal cell */
	f->kind = TSNPD_K_IL;
	f->nnum = ports * (ports - 1);
	return 0;
    }
    if (strncmp(b, "ZIN", 3) == 0) {
	f->kind = TSNPD_K_ZIN;
	f->nnum = 2 * ports;
	if (b[3] == '\0' || strcmp(b + 3, "RI") == 0)
	    f->enc = 'R';
	else if (strcmp(b + 3, "MA") == 0)
	    f->enc = 'M';
	else
	    return -1;
	return 0;
    }
    if (strchr("STUZYHGAB", b[0]) == NULL)
	return -1;
    f->kind = TSNPD_K_MATRIX;
    f->letter = b[0];
    f->nnum = 2 * ports * ports;
    if (b[1] == '\0' || strcmp(b + 1, "RI") == 0)
	f->enc = 'R';
    else if (strcmp(b + 1, "MA") == 0)
	f->enc = 'M';
    else if (strcmp(b + 1, "DB") == 0)
	f->enc = 'D';
    else
	return -1;
    return 0;
}

/* ------------------------------------------------------------------ */
/* Touchstone reader                                                   */

#define TSNPD_MAXTOK 2048
typedef struct { double v; int line; } tsnpd_numtok;
typedef struct { tsnpd_numtok t[TSNPD_MAXTOK]; int n; } tsnpd_numlist;

static int tsnpd_push(tsnpd_numlist *l, double v, int line)
{
    if (l->n >= TSNPD_MAXTOK)
	return -1;
    l->t[l->n].v = v;
    l->t[l->n].line = line;
    ++l->n;
    return 0;
}

/* normalise a keyword: upper case, single blanks */
static void tsnpd_kwnorm(const char *s, size_t n, char *out, size_t max)
{
    size_t k = 0;
    int sp = 0;
    while (n > 0 && isspace((unsigned char)*s)) { ++s; --n; }
    while (n > 0 && isspace((unsigned char)s[n - 1])) --n;
    for (size_t i = 0; i < n && k + 1 < max; ++i) {
	if (isspace((unsigned char)s[i])) {
	    sp = 1;
	    continue;
	}
	if (sp && k + 2 < max)
	    out[k++] = ' ';
	sp = 0;
	out[k++] = (char)toupper((unsigned char)s[i]);
    }
    out[k] = '\0';
}

static void tsnpd_store_pair(tsnpd_net *o, int f, int cell, double a, double b)
{
    o->num[f][2 * cell] = a;
    o->num[f][2 * cell + 1] = b;
    o->raw[f][cell] = tsnpd_decode(o->enc, a, b);
}

static int tsnpd_read_ts(char *buf, int ports_hint, tsnpd_net *o)
{
    static tsnpd_numlist refl, netl, noil;
    int version = 1, got_version = 0, got_option = 0;
    int ports = -1, nfreq = -1, nnoise = -1, got_order = 0;
    int got_netdata = 0, sink = 0, lineno = 0;
    double mult = 1e9;
    char *line = buf;

    refl.n = netl.n = noil.n = 0;
    o->letter = 'S';
    o->enc = 'M';
    o->R = 50.0;
    while (line != NULL && *line != '\0') {
	char *nl = strchr(line, '\n');
	char *next = nl ? nl + 1 : NULL;
	char *p, *tok[512];
	int nt;

	++lineno;
	if (nl)
	    *nl = '\0';
	if ((p = strchr(line, '!')) != NULL)
	    *p = '\0';
	p = line;
	while (*p && isspace((unsigned char)*p))
	    ++p;
	if (*p == '\0') {
	    line = next;
	    continue;
	}
	if (*p == '[') {
	    char kw[64];
	    char *close = strchr(p, ']');

	    if (close == NULL)
		return tsnpd_fail(o, "line %d: unterminated keyword", lineno);
	    tsnpd_kwnorm(p + 1, (size_t)(close - p - 1), kw, sizeof(kw));
	    nt = tsnpd_split(close + 1, tok, 512);
	    if (strcmp(kw, "VERSION") == 0) {
		if (got_option || got_version || netl.n)
		    return tsnpd_fail(o, "line %d: [Version] not first", lineno);
		if (nt != 1 || strcmp(tok[0], "2.0") != 0)
		    return tsnpd_fail(o, "line %d: bad [Version]", lineno);
		version = 2;
		got_version = 1;
	    } else if (version != 2) {
		return tsnpd_fail(o, "line %d: keyword [%s] in a version 1 "
			"file", lineno, kw);
	    } else if (!got_option) {
		return tsnpd_fail(o, "line %d: keyword [%s] before the option "
			"line", lineno, kw);
	    } else if (strcmp(kw, "NUMBER OF PORTS") == 0) {
		double v;
		if (nt != 1 || tsnpd_number(tok[0], &v) || v != floor(v) ||
			v < 1 || ports != -1)
		    return tsnpd_fail(o, "line %d: bad [Number of Ports]",
			    lineno);
		ports = (int)v;
		sink = 0;
	    } else if (ports == -1) {
		return tsnpd_fail(o, "line %d: [%s] before [Number of Ports]",
			lineno, kw);
	    } else if (strcmp(kw, "TWO-PORT DATA ORDER") == 0) {
		if (nt != 1)
		    return tsnpd_fail(o, "line %d: bad [Two-Port Data Order]",
			    lineno);
		if (strcmp(tok[0], "12_21") == 0)
		    o->order_21_12 = 0;
		else if (strcmp(tok[0], "21_12") == 0)
		    o->order_21_12 = 1;
		else
		    return tsnpd_fail(o, "line %d: bad [Two-Port Data Order] "
			    "%s", lineno, tok[0]);
		got_order = 1;
		sink = 0;
	    } else if (strcmp(kw, "NUMBER OF FREQUENCIES") == 0) {
		double v;
		if (nt != 1 || tsnpd_number(tok[0], &v) || v != floor(v) ||
			v < 1)
		    return tsnpd_fail(o, "line %d: bad [Number of "
			    "Frequencies]", lineno);
		nfreq = (int)v;
		sink = 0;
	    } else if (strcmp(kw, "NUMBER OF NOISE FREQUENCIES") == 0) {
		double v;
		if (nt != 1 || tsnpd_number(tok[0], &v) || v != floor(v) ||
			v < 1)
		    return tsnpd_fail(o, "line %d: bad [Number of Noise "
			    "Frequencies]", lineno);
		nnoise = (int)v;
		sink = 0;
	    } else if (strcmp(kw, "REFERENCE") == 0) {
		if (o->has_reference)
		    return tsnpd_fail(o, "line %d: second [Reference]", lineno);
		o->has_reference = 1;
		sink = 1;
		for (int i = 0; i < nt; ++i) {
		    double v;
		    if (tsnpd_number(tok[i], &v))
			return tsnpd_fail(o, "line %d: bad number %s", lineno,
				tok[i]);
		    tsnpd_push(&refl, v, lineno);
		}
	    } else if (strcmp(kw, "MATRIX FORMAT") == 0) {
		if (nt != 1)
		    return tsnpd_fail(o, "line %d: bad [Matrix Format]",
			    lineno);
		tsnpd_upper(tok[0]);
		if (strcmp(tok[0], "FULL") == 0)
		    o->matrix_format = 0;
		else if (strcmp(tok[0], "UPPER") == 0)
		    o->matrix_format = 1;
		else if (strcmp(tok[0], "LOWER") == 0)
		    o->matrix_format = 2;
		else
		    return tsnpd_fail(o, "line %d: bad [Matrix Format] %s",
			    lineno, tok[0]);
		sink = 0;
	    } else if (strcmp(kw, "NETWORK DATA") == 0) {
		if (got_netdata || nt != 0)
		    return tsnpd_fail(o, "line %d: bad [Network Data]", lineno);
		got_netdata = 1;
		sink = 2;
	    } else if (strcmp(kw, "NOISE DATA") == 0) {
		if (!got_netdata || nt != 0)
		    return tsnpd_fail(o, "line %d: bad [Noise Data]", lineno);
		sink = 3;
	    } else if (strcmp(kw, "END") == 0) {
		if (!got_netdata || nt != 0)
		    return tsnpd_fail(o, "line %d: bad [End]", lineno);
		o->has_end = 1;
		sink = 4;
	    } else {
		return tsnpd_fail(o, "line %d: unknown or unsupported keyword "
			"[%s]", lineno, kw);
	    }
	    line = next;
	    continue;
	}
	if (*p == '#') {
	    if (version == 2 && !got_version)
		return tsnpd_fail(o, "line %d: internal", lineno);
	    if (got_option) {		/* further option lines are ignored */
		line = next;
		continue;
	    }
	    if (netl.n)
		return tsnpd_fail(o, "line %d: data before option line",
			lineno);
	    got_option = 1;
	    nt = tsnpd_split(p + 1, tok, 512);
	    for (int i = 0; i < nt; ++i) {
		tsnpd_upper(tok[i]);
		if (strcmp(tok[i], "HZ") == 0) mult = 1.0;
		else if (strcmp(tok[i], "KHZ") == 0) mult = 1e3;
		else if (strcmp(tok[i], "MHZ") == 0) mult = 1e6;
		else if (strcmp(tok[i], "GHZ") == 0) mult = 1e9;
		else if (strlen(tok[i]) == 1 && strchr("SYZHG", tok[i][0]))
		    o->letter = tok[i][0];
		else if (strcmp(tok[i], "DB") == 0) o->enc = 'D';
		else if (strcmp(tok[i], "MA") == 0) o->enc = 'M';
		else if (strcmp(tok[i], "RI") == 0) o->enc = 'R';
		else if (strcmp(tok[i], "R") == 0) {
		    if (i + 1 >= nt || tsnpd_number(tok[i + 1], &o->R))
			return tsnpd_fail(o, "line %d: R needs a value",
				lineno);
		    ++i;
		} else
		    return tsnpd_fail(o, "line %d: bad option %s", lineno,
			    tok[i]);
	    }
	    line = next;
	    continue;
	}
	/* numbers */
	if (!got_option)
	    return tsnpd_fail(o, "line %d: data before the option line",
		    lineno);
	nt = tsnpd_split(p, tok, 512);
	if (nt > 512)
	    return tsnpd_fail(o, "line %d: too many tokens", lineno);
	for (int i = 0; i < nt; ++i) {
	    double v;
	    tsnpd_numlist *l;
	    if (tsnpd_number(tok[i], &v))
		return tsnpd_fail(o, "line %d: bad number '%s'", lineno,
			tok[i]);
	    if (version == 1)
		l = &netl;
	    else if (sink == 1) l = &refl;
	    else if (sink == 2) l = &netl;
	    else if (sink == 3) l = &noil;
	    else
		return tsnpd_fail(o, "line %d: number outside a data block",
			lineno);
	    if (tsnpd_push(l, v, lineno))
		return tsnpd_fail(o, "too many numbers");
	}
	line = next;
    }
    if (!got_option)
	return tsnpd_fail(o, "no option line");

    o->filetype = version == 2 ? TSNPD_TS2 : TSNPD_TS1;
    o->layout_ok = 1;
    if (version == 2) {
	int pairs, per;

	if (ports < 1 || nfreq < 1 || !got_netdata)
	    return tsnpd_fail(o, "v2: missing [Number of Ports] / [Number of "
		    "Frequencies] / [Network Data]");
	if (ports > TSNPD_MAXP || nfreq > TSNPD_MAXF)
	    return tsnpd_fail(o, "v2: too large for this reader");
	if (ports == 2 && !got_order)
	    return tsnpd_fail(o, "v2: two-port file without [Two-Port Data "
		    "Order]");
	if (ports != 2 && got_order)
	    return tsnpd_fail(o, "v2: [Two-Port Data Order] in a %d-port file",
		    ports);
	if ((o->letter == 'H' || o->letter == 'G') && ports != 2)
	    return tsnpd_fail(o, "v2: %c parameters need two ports", o->letter);
	if (o->has_reference) {
	    if (refl.n != ports)
		return tsnpd_fail(o, "v2: [Reference] has %d values for %d "
			"ports", refl.n, ports);
	    for (int i = 0; i < ports; ++i)
		o->z0[0][i] = refl.t[i].v;
	} else {
	    for (int i = 0; i < ports; ++i)
		o->z0[0][i] = o->R;
	}
	pairs = o->matrix_format == 0 ? ports * ports :
	    ports * (ports + 1) / 2;
	per = 1 + 2 * pairs;
	if (netl.n != nfreq * per)
	    return tsnpd_fail(o, "v2: %d numbers in [Network Data], expected "
		    "%d x %d", netl.n, nfreq, per);
	for (int f = 0; f < nfreq; ++f) {
	    const tsnpd_numtok *t = &netl.t[f * per];
	    int k = 1;

	    o->freq[f] = t[0].v * mult;
	    for (int r = 0; r < ports; ++r) {
		int c0 = o->matrix_format == 1 ? r : 0;
		int c1 = o->matrix_format == 2 ? r : ports - 1;
		for (int c = c0; c <= c1; ++c) {
		    int rr = r, cc = c;
		    if (ports == 2 && o->order_21_12 && o->matrix_format == 0) {
			rr = c;
			cc = r;
		    }
		    tsnpd_store_pair(o, f, rr * ports + cc, t[k].v, t[k + 1].v);
		    if (o->matrix_format != 0)
			tsnpd_store_pair(o, f, cc * ports + rr, t[k].v,
				t[k + 1].v);
		    k += 2;
		}
	    }
	}
	if ((nnoise > 0) != (noil.n > 0) || (nnoise > 0 &&
		    noil.n != 5 * nnoise))
	    return tsnpd_fail(o, "v2: noise data inconsistent (%d numbers, "
		    "%d noise frequencies)", noil.n, nnoise);
	if (noil.n && ports != 2)
	    return tsnpd_fail(o, "v2: noise data in a %d-port file", ports);
	o->noise_rows = nnoise > 0 ? nnoise : 0;
	if (!o->has_end)
	    return tsnpd_fail(o, "v2: no [End]");
    } else {
	int per, k = 0, nf = 0;

	ports = ports_hint;
	if (ports < 1 || ports > TSNPD_MAXP)
	    return tsnpd_fail(o, "v1: need the port count of the extension");
	if ((o->letter == 'H' || o->letter == 'G') && ports != 2)
	    return tsnpd_fail(o, "v1: %c parameters need two ports", o->letter);
	per = 1 + 2 * ports * ports;
	for (int i = 0; i < ports; ++i)
	    o->z0[0][i] = o->R;
	while (k < netl.n) {
	    const tsnpd_numtok *t = &netl.t[k];
	    double fr;

	    if (netl.n - k < per && !(ports == 2 && nf > 0))
		return tsnpd_fail(o, "v1: %d trailing numbers", netl.n - k);
	    fr = t[0].v * mult;
	    if (nf > 0 && (fr <= o->freq[nf - 1] || netl.n - k < per)) {
		/* two-port noise data begins where the frequency stops
		   increasing */
		if (ports != 2 || (netl.n - k) % 5 != 0)
		    return tsnpd_fail(o, "v1: frequencies not increasing");
		o->noise_rows = (netl.n - k) / 5;
		break;
	    }
	    if (nf >= TSNPD_MAXF)
		return tsnpd_fail(o, "v1: too many frequencies");
	    o->freq[nf] = fr;
	    for (int i = 0; i < ports * ports; ++i) {
		int r = i / ports, c = i % ports, cell;
		const tsnpd_numtok *a = &t[1 + 2 * i];

		cell = ports == 2 ? c * ports + r : r * ports + c;
		tsnpd_store_pair(o, nf, cell, a[0].v, a[1].v);
		/* layout */
		if (ports <= 2) {
		    if (a[0].line != t[0].line || a[1].line != t[0].line)
			o->layout_ok = 0;
		} else {
		    int first = r == 0 ? t[0].line : a[-1].line + 1;
		    if (c == 0 && r > 0 && a[0].line == a[-1].line)
			o->layout_ok = 0;	/* row must start a line */
		    if (c == 0 && r == 0 && a[0].line != t[0].line)
			o->layout_ok = 0;
		    if (c > 0 && c % 4 != 0 && a[0].line != a[-1].line)
			o->layout_ok = 0;
		    if (c > 0 && c % 4 == 0 && a[0].line == a[-1].line)
			o->layout_ok = 0;	/* at most 4 pairs per line */
		    if (a[1].line != a[0].line)
			o->layout_ok = 0;
		    (void)first;
		}
	    }
	    if (k + per < netl.n && netl.t[k + per].line == t[per - 1].line)
		o->layout_ok = 0;	/* a frequency starts a line */
	    ++nf;
	    k += per;
	}
	if (nf < 1)
	    return tsnpd_fail(o, "v1: no data");
	nfreq = nf;
    }
    o->ports = ports;
    o->nfreq = nfreq;
    for (int f = 1; f < nfreq; ++f)
	if (!(o->freq[f] > o->freq[f - 1]))
	    return tsnpd_fail(o, "frequencies not increasing");
    /* physical values: version 1 data are normalised to R */
    for (int f = 0; f < nfreq; ++f) {
	for (int i = 0; i < ports * ports; ++i) {
	    double complex v = o->raw[f][i];
	    if (version == 1) {
		switch (o->letter) {
		case 'Z': v *= o->R; break;
		case 'Y': v /= o->R; break;
		case 'H':
		    if (i == 0) v *= o->R; else if (i == 3) v /= o->R;
		    break;
		case 'G':
		    if (i == 0) v /= o->R; else if (i == 3) v *= o->R;
		    break;
		default: break;
		}
	    }
	    o->data[f][i] = v;
	}
    }
    return 0;
}

/* ------------------------------------------------------------------ */
/* NPD reader                                                          */

static int tsnpd_read_npd(char *buf, tsnpd_net *o)
{
    char *line = buf;
    int lineno = 0, first = 1, nrows = 0, have_z0 = 0, have_par = 0;
    int ports = -1, nfreq = -1, version_ok = 0;
    char par[128] = "";
    static char legend[4 * TSNPD_MAXNUM + 64][16];
    static char z0tok[2 * TSNPD_MAXP][64];
    int nz0tok = 0;
    static double rows[TSNPD_MAXF][1 + 2 * TSNPD_MAXP +
	TSNPD_MAXFORM * TSNPD_MAXNUM];
    int rowlen[TSNPD_MAXF];

    o->filetype = TSNPD_NPD;
    o->legend_ok = 1;
    o->fprecision = o->dprecision = -1;
    while (line != NULL && *line != '\0') {
	char *nl = strchr(line, '\n');
	char *next = nl ? nl + 1 : NULL;
	char *p, *tok[600];
	int nt;

	++lineno;
	if (nl)
	    *nl = '\0';
	p = line;
	while (*p && isspace((unsigned char)*p))
	    ++p;
	if (*p == '\0') {
	    line = next;
	    continue;
	}
	if (first) {
	    o->magic_ok = strncmp(p, "#NPD", 4) == 0 &&
		(p[4] == '\0' || isspace((unsigned char)p[4]));
	    first = 0;
	}
	if (p[0] == '#' && p[1] == ':') {
	    nt = tsnpd_split(p + 2, tok, 600);
	    if (nt < 1)
		return tsnpd_fail(o, "line %d: empty keyword", lineno);
	    if (nrows)
		return tsnpd_fail(o, "line %d: keyword after data", lineno);
	    if (strcmp(tok[0], "version") == 0) {
		if (nt != 2 || strcmp(tok[1], "1.0") != 0)
		    return tsnpd_fail(o, "line %d: bad version", lineno);
		version_ok = 1;
	    } else if (strcmp(tok[0], "ports") == 0) {
		if (nt != 2 || ports != -1)
		    return tsnpd_fail(o, "line %d: bad ports", lineno);
		ports = atoi(tok[1]);
		if (ports < 1 || ports > TSNPD_MAXP)
		    return tsnpd_fail(o, "line %d: ports %d unsupported",
			    lineno, ports);
	    } else if (strcmp(tok[0], "frequencies") == 0) {
		if (nt != 2)
		    return tsnpd_fail(o, "line %d: bad frequencies", lineno);
		nfreq = atoi(tok[1]);
		if (nfreq < 1 || nfreq > TSNPD_MAXF)
		    return tsnpd_fail(o, "line %d: frequencies %d unsupported",
			    lineno, nfreq);
	    } else if (strcmp(tok[0], "parameters") == 0) {
		if (nt != 2 || strlen(tok[1]) >= sizeof(par))
		    return tsnpd_fail(o, "line %d: bad parameters", lineno);
		strcpy(par, tok[1]);
		have_par = 1;
	    } else if (strcmp(tok[0], "z0") == 0) {
		have_z0 = 1;
		if (nt == 2 && strcasecmp(tok[1], "PER-FREQUENCY") == 0) {
		    o->fz0 = 1;
		} else {
		    if (nt - 1 > 2 * TSNPD_MAXP)
			return tsnpd_fail(o, "line %d: too many z0", lineno);
		    nz0tok = nt - 1;
		    for (int i = 0; i < nz0tok; ++i)
			snprintf(z0tok[i], sizeof(z0tok[i]), "%s", tok[i + 1]);
		}
	    } else if (strcmp(tok[0], "fprecision") == 0) {
		if (nt != 2)
		    return tsnpd_fail(o, "line %d: bad fprecision", lineno);
		o->fprecision = atoi(tok[1]);
	    } else if (strcmp(tok[0], "dprecision") == 0) {
		if (nt != 2)
		    return tsnpd_fail(o, "line %d: bad dprecision", lineno);
		o->dprecision = atoi(tok[1]);
	    } else {
		return tsnpd_fail(o, "line %d: unknown keyword %s", lineno,
			tok[0]);
	    }
	    line = next;
	    continue;
	}
	if (p[0] == '#') {
	    int fn;
	    char nm[16];
	    if (sscanf(p, "# field %d: %15s", &fn, nm) == 2) {
		if (fn != o->legend_count + 1)
		    o->legend_ok = 0;
		if (o->legend_count < (int)(sizeof(legend) /
			    sizeof(legend[0])))
		    strcpy(legend[o->legend_count], nm);
		++o->legend_count;
	    }
	    line = next;
	    continue;
	}
	/* data line */
	nt = tsnpd_split(p, tok, 600);
	if (nrows >= TSNPD_MAXF)
	    return tsnpd_fail(o, "line %d: too many data lines", lineno);
	if (nt > (int)(sizeof(rows[0]) / sizeof(rows[0][0])))
	    return tsnpd_fail(o, "line %d: too many fields (%d)", lineno, nt);
	for (int i = 0; i < nt; ++i)
	    if (tsnpd_number(tok[i], &rows[nrows][i]))
		return tsnpd_fail(o, "line %d: bad number '%s'", lineno,
			tok[i]);
	rowlen[nrows++] = nt;
	line = next;
    }
    if (!version_ok || ports < 0 || nfreq < 0 || !have_par || !have_z0)
	return tsnpd_fail(o, "npd: header incomplete (version %d ports %d "
		"frequencies %d parameters %d z0 %d)", version_ok, ports,
		nfreq, have_par, have_z0);
    if (nrows != nfreq)
	return tsnpd_fail(o, "npd: %d data lines for %d frequencies", nrows,
		nfreq);
    o->ports = ports;
    o->nfreq = nfreq;
    if (!o->fz0) {
	if (nz0tok != 2 * ports)
	    return tsnpd_fail(o, "npd: z0 has %d fields for %d ports", nz0tok,
		    ports);
	for (int i = 0; i < ports; ++i) {
	    double re, im;
	    char *im_s = z0tok[2 * i + 1];
	    size_t n = strlen(im_s);
	    if (n < 2 || (im_s[n - 1] != 'j' && im_s[n - 1] != 'J'))
		return tsnpd_fail(o, "npd: z0 imaginary part '%s' lacks j",
			im_s);
	    im_s[n - 1] = '\0';
	    if (tsnpd_number(z0tok[2 * i], &re) || tsnpd_number(im_s, &im))
		return tsnpd_fail(o, "npd: bad z0 value");
	    o->z0[0][i] = re + I * im;
	}
    }
    /* parameter list */
    {
	char *s = par, *tk;
	int total = 1 + (o->fz0 ? 2 * ports : 0);
	int li = 0;

	while ((tk = strsep(&s, ",")) != NULL) {
	    if (o->nforms >= TSNPD_MAXFORM)
		return tsnpd_fail(o, "npd: too many parameter forms");
	    if (tsnpd_parse_spec(tk, ports, &o->form[o->nforms]))
		return tsnpd_fail(o, "npd: bad parameter spec '%s'", tk);
	    total += o->form[o->nforms].nnum;
	    ++o->nforms;
	}
	o->fields_per_line = total;
	for (int f = 0; f < nfreq; ++f) {
	    int k = 0;
	    if (rowlen[f] != total)
		return tsnpd_fail(o, "npd: data line %d has %d fields, the "
			"header implies %d", f + 1, rowlen[f], total);
	    o->freq[f] = rows[f][k++];
	    if (o->fz0)
		for (int i = 0; i < ports; ++i) {
		    o->z0[f][i] = rows[f][k] + I * rows[f][k + 1];
		    k += 2;
		}
	    for (int j = 0; j < o->nforms; ++j) {
		memcpy(o->form[j].num[f], &rows[f][k],
			sizeof(double) * (size_t)o->form[j].nnum);
		k += o->form[j].nnum;
	    }
	}
	/* legend: names in order */
	if (o->legend_count) {
	    char want[16];
#define TSNPD_LEG(...) do { snprintf(want, sizeof(want), __VA_ARGS__); \
	    if (li >= o->legend_count || strcmp(want, legend[li]) != 0) \
		o->legend_ok = 0; ++li; } while (0)
	    TSNPD_LEG("frequency");
	    if (o->fz0)
		for (int i = 0; i < ports; ++i) {
		    TSNPD_LEG("Z%d", i + 1);
		    TSNPD_LEG("Z%d", i + 1);
		}
	    for (int j = 0; j < o->nforms; ++j) {
		const tsnpd_form *fm = &o->form[j];
		static const char *nm[] = { "", "Zin", "PRC", "PRL", "SRC",
		    "SRL", "IL", "RL", "VSWR" };
		switch (fm->kind) {
		case TSNPD_K_MATRIX:
		    for (int r = 0; r < ports; ++r)
			for (int c = 0; c < ports; ++c) {
			    TSNPD_LEG("%c%d%d", fm->letter, r + 1, c + 1);
			    TSNPD_LEG("%c%d%d", fm->letter, r + 1, c + 1);
			}
		    break;
		case TSNPD_K_IL:
		    for (int r = 0; r < ports; ++r)
			for (int c = 0; c < ports; ++c)
			    if (r != c)
				TSNPD_LEG("IL%d%d", r + 1, c + 1);
		    break;
		case TSNPD_K_RL:
		case TSNPD_K_VSWR:
		    for (int i = 0; i < ports; ++i)
			TSNPD_LEG("%s%d", nm[fm->kind], i + 1);
		    break;
		default:
		    for (int i = 0; i < ports; ++i) {
			TSNPD_LEG("%s%d", nm[fm->kind], i + 1);
			TSNPD_LEG("%s%d", nm[fm->kind], i + 1);
		    }
		    break;
		}
	    }
	    if (li != o->legend_count)
		o->legend_ok = 0;
	}
    }
    return 0;
}

int tsnpd_read(const char *path, int filetype, int ports_hint, tsnpd_net *out)
{
    size_t len;
    char *buf;
    int rc;

    memset(out, 0, sizeof(*out));
    if ((buf = tsnpd_slurp(path, &len)) == NULL)
	return tsnpd_fail(out, "cannot read %s", path);
    if (strlen(buf) != len) {
	free(buf);
	return tsnpd_fail(out, "NUL byte in file");
    }
    if (filetype == TSNPD_NPD)
	rc = tsnpd_read_npd(buf, out);
    else
	rc = tsnpd_read_ts(buf, ports_hint, out);
    free(buf);
    return rc;
}

/* ------------------------------------------------------------------ */
/* writer                                                              */

typedef struct tsnpd_wr {
    char *buf;
    size_t len, cap;
    int kwcase, comments, blank, space;
    int nolead;		/* no blanks before the first token */
    int nlines;
} tsnpd_wr;

static void tsnpd_wputs(tsnpd_wr *w, const char *s)
{
    size_t n = strlen(s);
    if (w->len + n + 1 > w->cap) {
	w->cap = 2 * (w->len + n + 1) + 4096;
	w->buf = realloc(w->buf, w->cap);
    }
    memcpy(w->buf + w->len, s, n + 1);
    w->len += n;
}

/*
 * emit one logical line.  kind: 'k' keyword/option line (case respelling
 * applies to letters), 'd' data line.  Blanks outside [..] are respelled
 * according to w->space.
 */
static void tsnpd_wline(tsnpd_wr *w, int kind, const char *fmt, ...)
{
    char raw[4096], out[3 * 4096];
    size_t k = 0;
    int inb = 0, alt = 0;
    va_list ap;
    static const char *cmt[] = {
	"! comment [Network Data] # Hz S RI R 1 ; 1 2 3 4 5",
	"!",
	"!! [End] 1e9 0.5 0.5",
    };

    va_start(ap, fmt);
    vsnprintf(raw, sizeof(raw), fmt, ap);
    va_end(ap);
    if (w->blank && w->nlines == 0)
	tsnpd_wputs(w, w->blank == 2 ? " \t \n" : "\n");
    if (w->comments & 2) {
	tsnpd_wputs(w, cmt[w->nlines % 3]);
	tsnpd_wputs(w, "\n");
    }
    if (w->space == 2 && !w->nolead)
	tsnpd_wputs(w, "  \t");
    for (const char *p = raw; *p && k + 8 < sizeof(out); ++p) {
	char c = *p;
	if (c == '[') inb = 1;
	if (c == ']') inb = 0;
	if (c == ' ' && !inb) {
	    if (w->space == 1) { out[k++] = '\t'; continue; }
	    if (w->space == 2) {
		out[k++] = ' '; out[k++] = ' '; out[k++] = '\t'; out[k++] = ' ';
		continue;
	    }
	}
	if (isalpha((unsigned char)c)) {
	    switch (w->kwcase) {
	    case 1: c = (char)tolower((unsigned char)c); break;
	    case 2: c = (char)toupper((unsigned char)c); break;
	    case 3:
		if (kind == 'k') {
		    c = (char)((alt++ & 1) ? toupper((unsigned char)c) :
			    tolower((unsigned char)c));
		}
		break;
	    default: break;
	    }
	}
	out[k++] = c;
    }
    out[k] = '\0';
    tsnpd_wputs(w, out);
    if (w->space == 2)
	tsnpd_wputs(w, " \t ");
    if (w->comments & 1)
	tsnpd_wputs(w, w->nlines % 2 ? " ! trailing [End] 7 8 9" : "!x");
    tsnpd_wputs(w, "\n");
    if (w->blank)
	tsnpd_wputs(w, w->blank == 2 ? " \t \n" : "\n");
    ++w->nlines;
}

static int tsnpd_wflush(tsnpd_wr *w, const char *path)
{
    FILE *fp = fopen(path, "wb");
    int rc = 0;
    if (fp == NULL) {
	free(w->buf);
	return -1;
    }
    if (w->len && fwrite(w->buf, 1, w->len, fp) != w->len)
	rc = -1;
    if (fclose(fp) != 0)
	rc = -1;
    free(w->buf);
    w->buf = NULL;
    return rc;
}

static void tsnpd_encode(char enc, double complex v, double *a, double *b)
{
    switch (enc) {
    case 'M':
	*a = cabs(v);
	*b = carg(v) * 180.0 / TSNPD_PI;
	break;
    case 'D':
	*a = 20.0 * log10(cabs(v));
	*b = carg(v) * 180.0 / TSNPD_PI;
	break;
    default:
	*a = creal(v);
	*b = cimag(v);
	break;
    }
}

void tsnpd_spell_init(tsnpd_spell *s, int version)
{
    memset(s, 0, sizeof(*s));
    s->version = version;
    s->unit = 0;
    s->enc = 'R';
}

static void tsnpd_perm4(int idx, int p[4])
{
    int pool[4] = { 0, 1, 2, 3 }, n = 4;
    for (int i = 0; i < 4; ++i) {
	int k = idx % n;
	idx /= n;
	p[i] = pool[k];
	for (int j = k; j < n - 1; ++j)
	    pool[j] = pool[j + 1];
	--n;
    }
}

int tsnpd_write_ts(const char *path, const tsnpd_net *gt, const tsnpd_spell *s)
{
    static const char *unitname[] = { "Hz", "kHz", "MHz", "GHz" };
    static const double unitmult[] = { 1.0, 1e3, 1e6, 1e9 };
    static const char *encname[] = { "RI", "MA", "DB" };
    int n = gt->ports, equal = 1, symmetric = 1;
    int unit = s->unit;
    char enc = s->enc;
    double R = creal(gt->z0[0][0]);
    tsnpd_wr w;
    char opt[256];
    int perm[4];

    for (int i = 0; i < n; ++i) {
	if (cimag(gt->z0[0][i]) != 0.0 || gt->fz0)
	    return TSNPD_NA;
	if (gt->z0[0][i] != gt->z0[0][0])
	    equal = 0;
    }
    for (int f = 0; f < gt->nfreq; ++f)
	for (int r = 0; r < n; ++r)
	    for (int c = 0; c < r; ++c)
		if (gt->data[f][r * n + c] != gt->data[f][c * n + r])
		    symmetric = 0;
    if (strchr("SZYHG", gt->letter) == NULL)
	return TSNPD_NA;
    if ((gt->letter == 'H' || gt->letter == 'G') && n != 2)
	return TSNPD_NA;
    if (s->version == 1) {
	if (n > 4 || !equal)
	    return TSNPD_NA;
	if (s->matfmt || s->order || s->linebreak || s->refstyle || s->kworder)
	    return TSNPD_NA;
    } else {
	if (s->matfmt >= 2 && !symmetric)
	    return TSNPD_NA;
	if (s->order && (n != 2 || s->matfmt >= 2))
	    return TSNPD_NA;
	if (s->refstyle == 0 && 0)
	    return TSNPD_NA;
    }
    if (s->noise && n != 2)
	return TSNPD_NA;
    /* defaulted option fields must equal the defaults: GHz S MA R 50 */
    if (s->optmask & 1) unit = 3;
    if ((s->optmask & 2) && gt->letter != 'S')
	return TSNPD_NA;
    if (s->optmask & 4) enc = 'M';
    if ((s->optmask & 8) && !(R == 50.0 && (equal || s->version == 2)))
	return TSNPD_NA;
    if ((s->optmask & 8) && s->version == 2 && !equal && s->refstyle == 0) {
	/* R omitted; [Reference] carries everything: fine */
    }
    if ((s->optmask & 1) && s->unit != 0)
	return TSNPD_NA;	/* unit dimension and defaulting are exclusive */
    if ((s->optmask & 4) && s->enc != 'R')
	return TSNPD_NA;

    memset(&w, 0, sizeof(w));
    w.kwcase = s->kwcase;
    w.comments = s->comments;
    w.blank = s->blank;
    w.space = s->space;

    if (s->version == 2)
	tsnpd_wline(&w, 'k', "[Version] 2.0");
    /* option line */
    tsnpd_perm4(s->optperm, perm);
    strcpy(opt, "#");
    for (int i = 0; i < 4; ++i) {
	char fld[64] = "";
	if (s->optmask & (1 << perm[i]))
	    continue;
	switch (perm[i]) {
	case 0: snprintf(fld, sizeof(fld), " %s", unitname[unit]); break;
	case 1: snprintf(fld, sizeof(fld), " %c", gt->letter); break;
	case 2:
	    snprintf(fld, sizeof(fld), " %s",
		    encname[enc == 'R' ? 0 : enc == 'M' ? 1 : 2]);
	    break;
	default: snprintf(fld, sizeof(fld), " R %.17g", R); break;
	}
	strcat(opt, fld);
    }
    tsnpd_wline(&w, 'k', "%s", opt);
    if (s->version == 2) {
	/* the block between [Number of Ports] and [Network Data] */
	char blk[5][512];
	int nb = 0, order[5];

	tsnpd_wline(&w, 'k', s->intzero ? "[Number of Ports] 0%d" :
		"[Number of Ports] %d", n);
	if (n == 2)
	    snprintf(blk[nb++], 512, "[Two-Port Data Order] %s",
		    s->order ? "21_12" : "12_21");
	snprintf(blk[nb++], 512, s->intzero ? "[Number of Frequencies] 0%d" :
		"[Number of Frequencies] %d", gt->nfreq);
	if (s->noise)
	    snprintf(blk[nb++], 512, s->intzero ?
		    "[Number of Noise Frequencies] 02" :
		    "[Number of Noise Frequencies] 2");
	if (!equal || s->refstyle) {
	    char *b = blk[nb++];
	    size_t k = (size_t)snprintf(b, 512, "[Reference]");
	    for (int i = 0; i < n; ++i)
		k += (size_t)snprintf(b + k, 512 - k, "%c%.17g",
			s->refstyle == 2 ? '\n' : ' ', creal(gt->z0[0][i]));
	}
	if (s->matfmt)
	    snprintf(blk[nb++], 512, "[Matrix Format] %s",
		    s->matfmt == 1 ? "Full" : s->matfmt == 2 ? "Upper" :
		    "Lower");
	for (int i = 0; i < nb; ++i) {
	    switch (s->kworder) {
	    case 1: order[i] = nb - 1 - i; break;
	    case 2: order[i] = (i + 1) % nb; break;
	    default: order[i] = i; break;
	    }
	}
	if (s->kworder && nb < 2) {
	    free(w.buf);
	    return TSNPD_NA;
	}
	for (int i = 0; i < nb; ++i) {
	    /* a multi-line [Reference] is emitted line by line */
	    char *b = blk[order[i]], *q;
	    int firstl = 1;
	    while ((q = strchr(b, '\n')) != NULL) {
		*q = '\0';
		tsnpd_wline(&w, firstl ? 'k' : 'd', "%s", b);
		firstl = 0;
		b = q + 1;
	    }
	    tsnpd_wline(&w, firstl ? 'k' : 'd', "%s", b);
	}
	tsnpd_wline(&w, 'k', "[Network Data]");
    }
    /* data */
    for (int f = 0; f < gt->nfreq; ++f) {
	char ln[4096];
	size_t k = 0;
	int onl = 0;	/* pairs on the current line */

	k = (size_t)snprintf(ln, sizeof(ln), "%.17g",
		gt->freq[f] / unitmult[unit]);
	if (s->linebreak == 3 || (s->linebreak == 2 && 0)) {
	    tsnpd_wline(&w, 'd', "%s", ln);
	    k = 0;
	}
	for (int r = 0; r < n; ++r) {
	    int c0 = 0, c1 = n - 1;
	    if (s->version == 2 && s->matfmt == 2) c0 = r;
	    if (s->version == 2 && s->matfmt == 3) c1 = r;
	    for (int c = c0; c <= c1; ++c) {
		int rr = r, cc = c;
		double complex v;
		double a, b;

		if (n == 2 && (s->version == 1 || s->order)) {
		    rr = c;
		    cc = r;
		}
		v = gt->data[f][rr * n + cc];
		if (s->version == 1) {
		    switch (gt->letter) {
		    case 'Z': v /= R; break;
		    case 'Y': v *= R; break;
		    case 'H':
			if (rr == 0 && cc == 0) v /= R;
			if (rr == 1 && cc == 1) v *= R;
			break;
		    case 'G':
			if (rr == 0 && cc == 0) v *= R;
			if (rr == 1 && cc == 1) v /= R;
			break;
		    default: break;
		    }
		}
		tsnpd_encode(enc, v, &a, &b);
		/* line breaking */
		if (s->linebreak == 0) {
		    int newrow = (c == c0 && r > 0 && n != 2);
		    if (k > 0 && (newrow || onl == 4)) {
			tsnpd_wline(&w, 'd', "%s", ln);
			k = 0;
			onl = 0;
		    }
		} else if (s->linebreak == 2) {
		    if (k > 0 && onl >= 1) {
			tsnpd_wline(&w, 'd', "%s", ln);
			k = 0;
			onl = 0;
		    }
		}
		if (s->linebreak == 3) {
		    tsnpd_wline(&w, 'd', "%.17g", a);
		    tsnpd_wline(&w, 'd', "%.17g", b);
		    continue;
		}
		k += (size_t)snprintf(ln + k, sizeof(ln) - k, "%s%.17g %.17g",
			k ? " " : "", a, b);
		++onl;
	    }
	}
	if (k > 0)
	    tsnpd_wline(&w, 'd', "%s", ln);
    }
    if (s->noise) {
	double f0 = gt->freq[0] / unitmult[unit];
	double f1 = gt->freq[gt->nfreq - 1] / unitmult[unit] * 1.5;
	if (s->version == 2)
	    tsnpd_wline(&w, 'k', "[Noise Data]");
	tsnpd_wline(&w, 'd', "%.17g 0.5 0.25 -30 0.4", f0);
	tsnpd_wline(&w, 'd', "%.17g 0.75 0.5 45 0.2", f1);
    }
    if (s->version == 2)
	tsnpd_wline(&w, 'k', "[End]");
    return tsnpd_wflush(&w, path);
}

/* ------------------------------------------------------------------ */

void tsnpd_npd_spell_init(tsnpd_npd_spell *s)
{
    memset(s, 0, sizeof(*s));
    s->enc = 'R';
}

int tsnpd_write_npd(const char *path, const tsnpd_net *gt,
	const tsnpd_npd_spell *s)
{
    int n = gt->ports, perm[7], pool[7], pn = 7, idx = s->perm;
    int pos_ports = -1, pos_z0 = -1;
    tsnpd_wr w;
    char name[8];

    if (s->enc == 'D' && gt->letter != 'S')
	return TSNPD_NA;
    if (s->pfcase && !gt->fz0)
	return TSNPD_NA;
    for (int i = 0; i < 7; ++i)
	pool[i] = i;
    for (int i = 0; i < 7; ++i) {
	int k = idx % pn;
	idx /= pn;
	perm[i] = pool[k];
	for (int j = k; j < pn - 1; ++j)
	    pool[j] = pool[j + 1];
	--pn;
	if (perm[i] == 1) pos_ports = i;
	if (perm[i] == 4) pos_z0 = i;
    }
    if (pos_ports > pos_z0)
	return TSNPD_NA;	/* "ports must come before #:z0" */

    memset(&w, 0, sizeof(w));
    w.blank = s->blank;
    w.space = s->space;
    snprintf(name, sizeof(name), "%c%s", gt->letter,
	    s->enc == 'R' ? "ri" : s->enc == 'M' ? "ma" : "dB");
    for (char *p = name; *p; ++p) {
	if (s->namecase == 1) *p = (char)tolower((unsigned char)*p);
	if (s->namecase == 2) *p = (char)toupper((unsigned char)*p);
    }
    {
	int sp = w.space;	/* the magic line is kept verbatim */
	w.space = 0;
	tsnpd_wline(&w, 'd', "#NPD");
	w.space = sp;
    }
    w.nolead = 1;	/* header lines start in column one */
    for (int i = 0; i < 7; ++i) {
	if (s->comments == 1)
	    tsnpd_wline(&w, 'd', i % 2 ? "# a comment #:ports 9" : "#");
	switch (perm[i]) {
	case 0: tsnpd_wline(&w, 'd', "#:version 1.0"); break;
	case 1: tsnpd_wline(&w, 'd', s->intzero ? "#:ports 0%d" : "#:ports %d",
			n); break;
	case 2: tsnpd_wline(&w, 'd', s->intzero ? "#:frequencies 0%d" :
			"#:frequencies %d", gt->nfreq); break;
	case 3: tsnpd_wline(&w, 'd', "#:parameters %s", name); break;
	case 4:
	    if (gt->fz0) {
		tsnpd_wline(&w, 'd', "#:z0 %s", s->pfcase ? "per-frequency" :
			"PER-FREQUENCY");
	    } else {
		char ln[1024];
		size_t k = (size_t)snprintf(ln, sizeof(ln), "#:z0");
		for (int p = 0; p < n; ++p)
		    k += (size_t)snprintf(ln + k, sizeof(ln) - k,
			    " %.17g %+.17gj", creal(gt->z0[0][p]),
			    cimag(gt->z0[0][p]));
		tsnpd_wline(&w, 'd', "%s", ln);
	    }
	    break;
	case 5: tsnpd_wline(&w, 'd', "#:fprecision 17"); break;
	default: tsnpd_wline(&w, 'd', "#:dprecision 17"); break;
	}
    }
    if (s->comments == 2) {
	int fn = 0;
	tsnpd_wline(&w, 'd', "#");
	tsnpd_wline(&w, 'd', "# field %d: frequency (Hz)", ++fn);
	if (gt->fz0)
	    for (int p = 0; p < 2 * n; ++p)
		tsnpd_wline(&w, 'd', "# field %d: Z%d %s (ohms)", ++fn,
			p / 2 + 1, p % 2 ? "imaginary" : "real");
	for (int c = 0; c < 2 * n * n; ++c)
	    tsnpd_wline(&w, 'd', "# field %d: %c%d%d %s", ++fn, gt->letter,
		    c / 2 / n + 1, c / 2 % n + 1, c % 2 ? "second" : "first");
	tsnpd_wline(&w, 'd', "#");
    }
    w.nolead = 0;
    for (int f = 0; f < gt->nfreq; ++f) {
	char ln[8192];
	size_t k = (size_t)snprintf(ln, sizeof(ln), "%.17g", gt->freq[f]);
	if (gt->fz0)
	    for (int p = 0; p < n; ++p)
		k += (size_t)snprintf(ln + k, sizeof(ln) - k, " %.17g %+.17g",
			creal(gt->z0[f][p]), cimag(gt->z0[f][p]));
	for (int c = 0; c < n * n; ++c) {
	    double a, b;
	    tsnpd_encode(s->enc, gt->data[f][c], &a, &b);
	    k += (size_t)snprintf(ln + k, sizeof(ln) - k, " %.17g %.17g", a, b);
	}
	if (s->comments == 1 && f > 0)
	    tsnpd_wline(&w, 'd', "# between data lines");
	tsnpd_wline(&w, 'd', "%s", ln);
    }
    return tsnpd_wflush(&w, path);
}
