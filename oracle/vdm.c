/*
 * vdm.c: reference rules for vnadata_convert, see vdm.h.
 */
#include <stddef.h>
#include <vnaconv.h>
#include "vdm.h"

const char *const vdm_type_name[VDM_NTYPES] = {
    "UNDEF", "S", "T", "U", "Z", "Y", "H", "G", "A", "B", "ZIN"
};

/* S, Z, Y exist for any number of ports */
static int is_nport(int t) { return t == 1 || t == 4 || t == 5; }
static int is_matrix(int t) { return t >= 1 && t <= 9; }

int vdm_dims_ok(int type, int rows, int cols)
{
    if (rows < 0 || cols < 0)
	return 0;
    if (type == VDM_UNDEF)
	return 1;
    if (type == VDM_ZIN)
	return rows == 1;
    if (is_nport(type))
	return rows == cols;
    if (is_matrix(type))
	return rows == 2 && cols == 2;
    return 0;
}

int vdm_classify(int from, int to, int rows, int cols)
{
    if (to < 0 || to >= VDM_NTYPES || from < 0 || from >= VDM_NTYPES)
	return VDM_REJECT;
    if (from == to)
	return VDM_COPY;
    if (!is_matrix(from))		/* UNDEF and ZIN convert to nothing */
	return VDM_REJECT;
    if (to == VDM_UNDEF)
	return VDM_REJECT;
    if (to == VDM_ZIN)
	return rows == cols ? VDM_CONVERT : VDM_REJECT;
    if (is_nport(from) && is_nport(to))
	return rows == cols ? VDM_CONVERT : VDM_REJECT;
    return rows == 2 && cols == 2 ? VDM_CONVERT : VDM_REJECT;
}

#define K(a, b)	((a) * 16 + (b))

static int apply2(int from, int to, const double complex *in,
	double complex *out, const double complex *z0)
{
    const double complex (*i2)[2] = (const double complex (*)[2])in;
    double complex (*o2)[2] = (double complex (*)[2])out;

    if (to == VDM_ZIN) {
	switch (from) {
	case 1: vnaconv_stozi(i2, out, z0); return 0;
	case 2: vnaconv_ttozi(i2, out, z0); return 0;
	case 3: vnaconv_utozi(i2, out, z0); return 0;
	case 4: vnaconv_ztozi(i2, out, z0); return 0;
	case 5: vnaconv_ytozi(i2, out, z0); return 0;
	case 6: vnaconv_htozi(i2, out, z0); return 0;
	case 7: vnaconv_gtozi(i2, out, z0); return 0;
	case 8: vnaconv_atozi(i2, out, z0); return 0;
	case 9: vnaconv_btozi(i2, out, z0); return 0;
	default: return -1;
	}
    }
    switch (K(from, to)) {
    case K(1, 2): vnaconv_stot(i2, o2); return 0;
    case K(1, 3): vnaconv_stou(i2, o2); return 0;
    case K(1, 4): vnaconv_stoz(i2, o2, z0); return 0;
    case K(1, 5): vnaconv_stoy(i2, o2, z0); return 0;
    case K(1, 6): vnaconv_stoh(i2, o2, z0); return 0;
    case K(1, 7): vnaconv_stog(i2, o2, z0); return 0;
    case K(1, 8): vnaconv_stoa(i2, o2, z0); return 0;
    case K(1, 9): vnaconv_stob(i2, o2, z0); return 0;
    case K(2, 1): vnaconv_ttos(i2, o2); return 0;
    case K(2, 3): vnaconv_ttou(i2, o2); return 0;
    case K(2, 4): vnaconv_ttoz(i2, o2, z0); return 0;
    case K(2, 5): vnaconv_ttoy(i2, o2, z0); return 0;
    case K(2, 6): vnaconv_ttoh(i2, o2, z0); return 0;
    case K(2, 7): vnaconv_ttog(i2, o2, z0); return 0;
    case K(2, 8): vnaconv_ttoa(i2, o2, z0); return 0;
    case K(2, 9): vnaconv_ttob(i2, o2, z0); return 0;
    case K(3, 1): vnaconv_utos(i2, o2); return 0;
    case K(3, 2): vnaconv_utot(i2, o2); return 0;
    case K(3, 4): vnaconv_utoz(i2, o2, z0); return 0;
    case K(3, 5): vnaconv_utoy(i2, o2, z0); return 0;
    case K(3, 6): vnaconv_utoh(i2, o2, z0); return 0;
    case K(3, 7): vnaconv_utog(i2, o2, z0); return 0;
    case K(3, 8): vnaconv_utoa(i2, o2, z0); return 0;
    case K(3, 9): vnaconv_utob(i2, o2, z0); return 0;
    case K(4, 1): vnaconv_ztos(i2, o2, z0); return 0;
    case K(4, 2): vnaconv_ztot(i2, o2, z0); return 0;
    case K(4, 3): vnaconv_ztou(i2, o2, z0); return 0;
    case K(4, 5): vnaconv_ztoy(i2, o2); return 0;
    case K(4, 6): vnaconv_ztoh(i2, o2); return 0;
    case K(4, 7): vnaconv_ztog(i2, o2); return 0;
    case K(4, 8): vnaconv_ztoa(i2, o2); return 0;
    case K(4, 9): vnaconv_ztob(i2, o2); return 0;
    case K(5, 1): vnaconv_ytos(i2, o2, z0); return 0;
    case K(5, 2): vnaconv_ytot(i2, o2, z0); return 0;
    case K(5, 3): vnaconv_ytou(i2, o2, z0); return 0;
    case K(5, 4): vnaconv_ytoz(i2, o2); return 0;
    case K(5, 6): vnaconv_ytoh(i2, o2); return 0;
    case K(5, 7): vnaconv_ytog(i2, o2); return 0;
    case K(5, 8): vnaconv_ytoa(i2, o2); return 0;
    case K(5, 9): vnaconv_ytob(i2, o2); return 0;
    case K(6, 1): vnaconv_htos(i2, o2, z0); return 0;
    case K(6, 2): vnaconv_htot(i2, o2, z0); return 0;
    case K(6, 3): vnaconv_htou(i2, o2, z0); return 0;
    case K(6, 4): vnaconv_htoz(i2, o2); return 0;
    case K(6, 5): vnaconv_htoy(i2, o2); return 0;
    case K(6, 7): vnaconv_htog(i2, o2); return 0;
    case K(6, 8): vnaconv_htoa(i2, o2); return 0;
    case K(6, 9): vnaconv_htob(i2, o2); return 0;
    case K(7, 1): vnaconv_gtos(i2, o2, z0); return 0;
    case K(7, 2): vnaconv_gtot(i2, o2, z0); return 0;
    case K(7, 3): vnaconv_gtou(i2, o2, z0); return 0;
    case K(7, 4): vnaconv_gtoz(i2, o2); return 0;
    case K(7, 5): vnaconv_gtoy(i2, o2); return 0;
    case K(7, 6): vnaconv_gtoh(i2, o2); return 0;
    case K(7, 8): vnaconv_gtoa(i2, o2); return 0;
    case K(7, 9): vnaconv_gtob(i2, o2); return 0;
    case K(8, 1): vnaconv_atos(i2, o2, z0); return 0;
    case K(8, 2): vnaconv_atot(i2, o2, z0); return 0;
    case K(8, 3): vnaconv_atou(i2, o2, z0); return 0;
    case K(8, 4): vnaconv_atoz(i2, o2); return 0;
    case K(8, 5): vnaconv_atoy(i2, o2); return 0;
    case K(8, 6): vnaconv_atoh(i2, o2); return 0;
    case K(8, 7): vnaconv_atog(i2, o2); return 0;
    case K(8, 9): vnaconv_atob(i2, o2); return 0;
    case K(9, 1): vnaconv_btos(i2, o2, z0); return 0;
    case K(9, 2): vnaconv_btot(i2, o2, z0); return 0;
    case K(9, 3): vnaconv_btou(i2, o2, z0); return 0;
    case K(9, 4): vnaconv_btoz(i2, o2); return 0;
    case K(9, 5): vnaconv_btoy(i2, o2); return 0;
    case K(9, 6): vnaconv_btoh(i2, o2); return 0;
    case K(9, 7): vnaconv_btog(i2, o2); return 0;
    case K(9, 8): vnaconv_btoa(i2, o2); return 0;
    default: return -1;
    }
}

int vdm_apply(int from, int to, int n, int variant,
	const double complex *in, double complex *out,
	const double complex *z0)
{
    if (variant == 0 && is_nport(from) && (is_nport(to) || to == VDM_ZIN)) {
	switch (K(from, to)) {
	case K(1, 4): vnaconv_stozn(in, out, z0, n); return 0;
	case K(1, 5): vnaconv_stoyn(in, out, z0, n); return 0;
	case K(4, 1): vnaconv_ztosn(in, out, z0, n); return 0;
	case K(5, 1): vnaconv_ytosn(in, out, z0, n); return 0;
	case K(4, 5): vnaconv_ztoyn(in, out, n); return 0;
	case K(5, 4): vnaconv_ytozn(in, out, n); return 0;
	case K(1, 10): vnaconv_stozin(in, out, z0, n); return 0;
	case K(4, 10): vnaconv_ztozin(in, out, z0, n); return 0;
	case K(5, 10): vnaconv_ytozin(in, out, z0, n); return 0;
	default: return -1;
	}
    }
    if (n != 2)
	return -1;
    return apply2(from, to, in, out, z0);
}
