/*
 * ports.h: the defining port relations of vnaconv(3), evaluated on
 * explicit port states.  No conversion formula is used anywhere.
 *
 *   a_i = 1/2 K_i (v_i + Z_i i_i),  b_i = 1/2 K_i (v_i - Z_i* i_i),
 *   K_i = 1/sqrt|Re Z_i|
 *
 * A port state is the vector x = (v1, i1, v2, i2, ..., vn, in).
 * Every parameter type X defines "dep = X * ind" with dep and ind linear
 * functionals of x.
 */
#ifndef PORTS_H
#define PORTS_H
#include <complex.h>
#include "lin.h"

enum { PT_S, PT_T, PT_U, PT_Z, PT_Y, PT_H, PT_G, PT_A, PT_B, PT_N };
extern const char ports_letter[PT_N + 1];

#define PORTS_OK	0
#define PORTS_SINGULAR	1	/* on the conversion's singular set */
#define PORTS_MISMATCH	2

/*
 * ports_check: does `mout' (type tout) hold on exactly the states on which
 * `min' (type tin) holds?  n is the port count (types other than S, Z, Y
 * require n == 2).  *resid receives the largest row-wise relative residual,
 * *pivratio the (equilibrated) pivot ratio of the output's independent
 * variables on the basis states; below `sing' the case counts as singular.
 */
extern int ports_check(int n, int tin, const double complex *min,
	int tout, const double complex *mout, const double complex *z0,
	long double tol, long double sing, long double *resid,
	long double *pivratio);

/*
 * ports_zin: input impedance looking into each port with all other ports
 * terminated in their reference impedances, by direct solution of the
 * terminated network.  Returns PORTS_OK or PORTS_SINGULAR (some port's
 * terminated network has no unique solution with i_k = 1).
 */
extern int ports_zin(int n, int tin, const double complex *min,
	const double complex *z0, double complex *zi);

/*
 * ports_convert: reference conversion built only from the relations
 * (solves for the output matrix).  Returns PORTS_OK or PORTS_SINGULAR.
 */
extern int ports_convert(int n, int tin, const double complex *min,
	int tout, double complex *mout, const double complex *z0);
#endif
