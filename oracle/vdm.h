/*
 * vdm.h: reference rules for vnadata_convert (used by the C05 and C15
 * drivers).  Hand-written from vnadata(3)/vnaconv(3): which (from,to)
 * pairs exist, which dimensions they need, and which vnaconv function is
 * "the corresponding function" of a pair (selected by *name*, the compiler
 * checks the signature).  Independent of the dispatch table in
 * vnadata_convert.c.
 *
 * Types use the numbering of vnadata_parameter_type_t
 * (0 UNDEF, 1 S, 2 T, 3 U, 4 Z, 5 Y, 6 H, 7 G, 8 A, 9 B, 10 ZIN).
 */
#ifndef VDM_H
#define VDM_H
#include <complex.h>

#define VDM_NTYPES	11
#define VDM_UNDEF	0
#define VDM_ZIN		10

enum { VDM_CONVERT, VDM_COPY, VDM_REJECT };

extern const char *const vdm_type_name[VDM_NTYPES];

/* may an object of this type have these dimensions? (vnadata_init rule) */
extern int vdm_dims_ok(int type, int rows, int cols);

/* what must vnadata_convert do with a rows x cols object of type `from'? */
extern int vdm_classify(int from, int to, int rows, int cols);

/*
 * vdm_apply: run the vnaconv function named after the pair.
 *   variant 0: the n-port function where one exists (pairs among S,Z,Y and
 *              S,Z,Y -> ZIN), otherwise the two-port function
 *   variant 1: the two-port function (n must be 2)
 * `out' receives n*n cells (n cells for to == ZIN).  Returns 0, or -1 when
 * no such function exists for this n.
 */
extern int vdm_apply(int from, int to, int n, int variant,
	const double complex *in, double complex *out,
	const double complex *z0);

#endif
