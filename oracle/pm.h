/*
 * pm.h: reference document model for the vnaproperty API (C13, C14).
 *
 * Header-only (all functions static) so that it is compiled only into the
 * drivers that include it.  Everything here is written from vnaproperty(3):
 * a document is null | scalar(string) | map(key -> document) | list(document*).
 * Map key order is not part of the model (the manual promises none): keys
 * are compared and serialised as a sorted set.
 *
 * Descriptor grammar, from the manual page:
 *
 *   descriptor := ['.'] [ element { ('.' element) | subscript } ] [ suffix ]
 *   element    := key | subscript
 *   key        := kstart { kchar }        spaces allowed between words,
 *                                          unquoted trailing spaces dropped
 *   kstart     := letter | '_' | byte >= 0x80 | '\' any
 *   kchar      := kstart | digit | '-' | ' '
 *   subscript  := '[' int ']' | '[' int '+' ']' | '[' '+' ']'
 *   suffix     := '{}' | '[]' | '.'        ('.' only after an element, or
 *                                           alone = the root)
 * A dot may precede a subscript or '{}' ("a.[0]", ".{}"): the manual's
 * "dot-separated keys and subscripts" allows it.  What follows the longest
 * well-formed descriptor is `rest': "=value" / "#" for set, must be empty
 * elsewhere.  A descriptor that breaks off inside a token ("a[", "a[1",
 * "a{", "a\") or has no element at all ("", "=1", "0") is malformed.
 */
#ifndef PM_H
#define PM_H
#include <ctype.h>
#include <errno.h>
#include <stdarg.h>
#include <stdio.h>
#include <stdlib.h>
#include <string.h>
#include <vnaproperty.h>
#include "vf.h"

/* ------------------------------------------------------------------ */
/* string buffer                                                       */
/* ------------------------------------------------------------------ */
typedef struct pm_buf {
    char *s;
    size_t n, cap;
} pm_buf;

static void pm_buf_putn(pm_buf *b, const char *p, size_t k)
{
    if (b->n + k + 1 > b->cap) {
	size_t c = b->cap ? b->cap : 256;
	while (c < b->n + k + 1)
	    c *= 2;
	b->s = realloc(b->s, c);
	if (b->s == NULL)
	    abort();
	b->cap = c;
    }
    memcpy(b->s + b->n, p, k);
    b->n += k;
    b->s[b->n] = '\0';
}
static void pm_buf_puts(pm_buf *b, const char *p) { pm_buf_putn(b, p, strlen(p)); }
static void pm_buf_printf(pm_buf *b, const char *fmt, ...)
{
    char tmp[64];
    va_list ap;
    va_start(ap, fmt);
    vsnprintf(tmp, sizeof(tmp), fmt, ap);
    va_end(ap);
    pm_buf_puts(b, tmp);
}
static void pm_buf_reset(pm_buf *b) { b->n = 0; if (b->s) b->s[0] = '\0'; }
static void pm_buf_free(pm_buf *b) { free(b->s); b->s = NULL; b->n = b->cap = 0; }
static const char *pm_buf_str(pm_buf *b) { return b->s ? b->s : ""; }

/* printable rendering of a byte string for messages */
static const char *pm_show(const char *s)
{
    static char ring[8][400];
    static int k;
    char *o = ring[k = (k + 1) % 8];
    size_t n = 0;
    if (s == NULL)
	return "(null)";
    for (; *s && n < sizeof(ring[0]) - 6; ++s) {
	unsigned char c = (unsigned char)*s;
	if (c < 0x20 || c == 0x7f || c >= 0x80)
	    n += (size_t)snprintf(o + n, 5, "\\x%02x", c);
	else
	    o[n++] = (char)c;
    }
    o[n] = '\0';
    return o;
}

/* ------------------------------------------------------------------ */
/* model tree                                                          */
/* ------------------------------------------------------------------ */
typedef struct pm_node {
    int kind;			/* 's', 'm', 'l'; a null document is NULL */
    char *str;			/* scalar text */
    int n, cap;			/* children */
    char **keys;		/* map keys (insertion order, not significant) */
    struct pm_node **kids;
} pm_node;

static pm_node *pm_new(int kind)
{
    pm_node *p = calloc(1, sizeof(*p));
    if (p == NULL)
	abort();
    p->kind = kind;
    return p;
}
static pm_node *pm_scalar(const char *s)
{
    pm_node *p = pm_new('s');
    p->str = strdup(s);
    return p;
}
static void pm_free(pm_node *p)
{
    if (p == NULL)
	return;
    for (int i = 0; i < p->n; ++i) {
	if (p->keys)
	    free(p->keys[i]);
	pm_free(p->kids[i]);
    }
    free(p->keys);
    free(p->kids);
    free(p->str);
    free(p);
}
static void pm_grow(pm_node *p)
{
    if (p->n == p->cap) {
	p->cap = p->cap ? 2 * p->cap : 4;
	p->kids = realloc(p->kids, sizeof(pm_node *) * (size_t)p->cap);
	if (p->kind == 'm')
	    p->keys = realloc(p->keys, sizeof(char *) * (size_t)p->cap);
    }
}
static int pm_map_find(const pm_node *m, const char *key)
{
    for (int i = 0; i < m->n; ++i)
	if (strcmp(m->keys[i], key) == 0)
	    return i;
    return -1;
}
static pm_node **pm_map_add(pm_node *m, const char *key)
{
    pm_grow(m);
    m->keys[m->n] = strdup(key);
    m->kids[m->n] = NULL;
    return &m->kids[m->n++];
}
static void pm_map_del(pm_node *m, int i)
{
    free(m->keys[i]);
    pm_free(m->kids[i]);
    for (int j = i; j + 1 < m->n; ++j) {
	m->keys[j] = m->keys[j + 1];
	m->kids[j] = m->kids[j + 1];
    }
    --m->n;
}
/* insert a null element at idx (idx <= n) */
static pm_node **pm_list_insert(pm_node *l, int idx)
{
    pm_grow(l);
    for (int j = l->n; j > idx; --j)
	l->kids[j] = l->kids[j - 1];
    l->kids[idx] = NULL;
    ++l->n;
    return &l->kids[idx];
}
static void pm_list_del(pm_node *l, int i)
{
    pm_free(l->kids[i]);
    for (int j = i; j + 1 < l->n; ++j)
	l->kids[j] = l->kids[j + 1];
    --l->n;
}
static pm_node *pm_clone(const pm_node *p)
{
    if (p == NULL)
	return NULL;
    pm_node *q = pm_new(p->kind);
    if (p->str)
	q->str = strdup(p->str);
    for (int i = 0; i < p->n; ++i) {
	pm_grow(q);
	if (p->kind == 'm')
	    q->keys[q->n] = strdup(p->keys[i]);
	q->kids[q->n++] = pm_clone(p->kids[i]);
    }
    return q;
}
static int pm_count_nodes(const pm_node *p)
{
    int c = 1;
    if (p == NULL)
	return 1;
    for (int i = 0; i < p->n; ++i)
	c += pm_count_nodes(p->kids[i]);
    return c;
}

static int pm_cmp_str(const void *a, const void *b)
{
    return strcmp(*(const char *const *)a, *(const char *const *)b);
}

/*
 * canonical serialisation: ~ | s<len>:<bytes> | {k<len>:<key>=<doc>,...} |
 * [<doc>,...]; map entries sorted by key.
 */
static void pm_ser(const pm_node *p, pm_buf *b)
{
    if (p == NULL) {
	pm_buf_puts(b, "~");
	return;
    }
    switch (p->kind) {
    case 's':
	pm_buf_printf(b, "s%zu:", strlen(p->str));
	pm_buf_puts(b, p->str);
	break;
    case 'm': {
	int *ord = malloc(sizeof(int) * (size_t)(p->n + 1));
	for (int i = 0; i < p->n; ++i)
	    ord[i] = i;
	for (int i = 1; i < p->n; ++i)		/* insertion sort on keys */
	    for (int j = i; j > 0 &&
		    strcmp(p->keys[ord[j - 1]], p->keys[ord[j]]) > 0; --j) {
		int t = ord[j]; ord[j] = ord[j - 1]; ord[j - 1] = t;
	    }
	pm_buf_puts(b, "{");
	for (int i = 0; i < p->n; ++i) {
	    pm_buf_printf(b, "k%zu:", strlen(p->keys[ord[i]]));
	    pm_buf_puts(b, p->keys[ord[i]]);
	    pm_buf_puts(b, "=");
	    pm_ser(p->kids[ord[i]], b);
	    pm_buf_puts(b, ",");
	}
	pm_buf_puts(b, "}");
	free(ord);
	break;
    }
    case 'l':
	pm_buf_puts(b, "[");
	for (int i = 0; i < p->n; ++i) {
	    pm_ser(p->kids[i], b);
	    pm_buf_puts(b, ",");
	}
	pm_buf_puts(b, "]");
	break;
    default:
	abort();
    }
}

/* ------------------------------------------------------------------ */
/* descriptor parser (from the manual page)                            */
/* ------------------------------------------------------------------ */
enum { PM_KEY, PM_IDX, PM_INS, PM_APP };
enum { PM_SUF_NONE, PM_SUF_DOT, PM_SUF_MAP, PM_SUF_LIST };
#define PM_MAXEL 12

typedef struct pm_desc {
    int malformed;
    int huge;			/* malformed because an index exceeds int */
    int nel;
    struct {
	int type;
	int idx;
	char key[64];
    } el[PM_MAXEL];
    int suffix;
    const char *rest;		/* first byte after the descriptor */
} pm_desc;

static int pm_is_kstart(unsigned char c)
{
    return isalpha(c) || c == '_' || c >= 0x80 || c == '\\';
}
static int pm_is_kchar(unsigned char c)
{
    return pm_is_kstart(c) || isdigit(c) || c == '-' || c == ' ';
}

static void pm_parse(const char *s, pm_desc *d)
{
    const char *p = s;
    int leading = 0, after_dot = 0;

    memset(d, 0, sizeof(*d));
    d->rest = s;
    if (*p == '.') {
	++p;
	leading = after_dot = 1;
    }
    for (;;) {
	unsigned char c = (unsigned char)*p;

	if (pm_is_kstart(c) && (d->nel == 0 || after_dot)) {
	    char *o;
	    size_t n = 0, keep = 0;
	    if (d->nel >= PM_MAXEL)
		abort();
	    o = d->el[d->nel].key;
	    while (pm_is_kchar((unsigned char)*p)) {
		if (*p == '\\') {
		    ++p;
		    if (*p == '\0') {
			d->malformed = 1;
			return;
		    }
		    o[n++] = *p++;
		    keep = n;
		} else {
		    o[n++] = *p;
		    if (*p != ' ')
			keep = n;
		    ++p;
		}
		if (n >= sizeof(d->el[0].key) - 1)
		    abort();
	    }
	    o[keep] = '\0';
	    d->el[d->nel++].type = PM_KEY;
	} else if (c == '[') {
	    if (p[1] == ']') {
		d->suffix = PM_SUF_LIST;
		p += 2;
		break;
	    }
	    if (d->nel >= PM_MAXEL)
		abort();
	    ++p;
	    if (*p == '+') {
		d->el[d->nel].type = PM_APP;
		++p;
	    } else if (isdigit((unsigned char)*p)) {
		long long v = 0;
		while (isdigit((unsigned char)*p)) {
		    if (v <= 2147483647LL)
			v = v * 10 + (*p - '0');
		    ++p;
		}
		if (v >= 2147483647LL) {
		    /* an index no list can have: the document refuses it in
		       every entry point (drivers accept EINVAL and ENOENT) */
		    d->malformed = 1;
		    d->huge = 1;
		    return;
		}
		d->el[d->nel].idx = (int)v;
		d->el[d->nel].type = PM_IDX;
		if (*p == '+') {
		    d->el[d->nel].type = PM_INS;
		    ++p;
		}
	    } else {
		d->malformed = 1;
		return;
	    }
	    if (*p != ']') {
		d->malformed = 1;
		return;
	    }
	    ++p;
	    ++d->nel;
	} else if (c == '{') {
	    if (p[1] != '}') {
		d->malformed = 1;
		return;
	    }
	    d->suffix = PM_SUF_MAP;
	    p += 2;
	    break;
	} else {
	    /* nothing that can continue the path */
	    if (after_dot) {
		if (d->nel == 0 && !leading)
		    abort();
		d->suffix = PM_SUF_DOT;	/* "." alone, or trailing dot */
		break;
	    }
	    if (d->nel == 0) {		/* no element, no dot: empty */
		d->malformed = 1;
		return;
	    }
	    break;
	}
	/* after an element */
	after_dot = 0;
	if (*p == '.') {
	    ++p;
	    after_dot = 1;
	}
    }
    d->rest = p;
}

/* ------------------------------------------------------------------ */
/* model operations                                                    */
/* ------------------------------------------------------------------ */
#define PM_EINVAL 1
#define PM_ENOENT 2

static int pm_errbit(int e)
{
    return e == EINVAL ? PM_EINVAL : e == ENOENT ? PM_ENOENT : 4;
}
static const char *pm_errset_name(int m)
{
    switch (m) {
    case 0: return "none";
    case PM_EINVAL: return "EINVAL";
    case PM_ENOENT: return "ENOENT";
    case PM_EINVAL | PM_ENOENT: return "EINVAL|ENOENT";
    default: return "?";
    }
}

/*
 * pm_lookup: non-modifying resolution of the path and suffix of d.
 * Returns 0 and *slot, or the set of errno values the manual allows.
 * `parent'/`pidx' identify the collection entry of the last element.
 */
static int pm_lookup(pm_node **root, const pm_desc *d, pm_node ***slot,
	pm_node **parent, int *pidx)
{
    pm_node **cur = root;
    int err = 0;

    if (parent) *parent = NULL;
    if (pidx) *pidx = -1;
    if (d->malformed)
	return PM_EINVAL;
    for (int i = 0; i < d->nel && !err; ++i) {
	pm_node *n = *cur;
	switch (d->el[i].type) {
	case PM_KEY:
	    if (n == NULL) { err = PM_ENOENT; break; }
	    if (n->kind != 'm') { err = PM_EINVAL; break; }
	    {
		int k = pm_map_find(n, d->el[i].key);
		if (k < 0) { err = PM_ENOENT; break; }
		if (parent) *parent = n;
		if (pidx) *pidx = k;
		cur = &n->kids[k];
	    }
	    break;
	case PM_IDX:
	    if (n == NULL) { err = PM_ENOENT; break; }
	    if (n->kind != 'l') { err = PM_EINVAL; break; }
	    if (d->el[i].idx >= n->n) { err = PM_ENOENT; break; }
	    if (parent) *parent = n;
	    if (pidx) *pidx = d->el[i].idx;
	    cur = &n->kids[d->el[i].idx];
	    break;
	default:	/* insert / append outside a modifying function */
	    err = PM_EINVAL;
	    if (n == NULL)
		err |= PM_ENOENT;	/* both documented reasons apply */
	    break;
	}
    }
    if (!err && (d->suffix == PM_SUF_MAP || d->suffix == PM_SUF_LIST)) {
	pm_node *n = *cur;
	if (n == NULL)
	    err = PM_ENOENT;
	else if (n->kind != (d->suffix == PM_SUF_MAP ? 'm' : 'l'))
	    err = PM_EINVAL;
    }
    if (slot)
	*slot = cur;
    return err;
}

static void pm_force(pm_node **slot, int kind)
{
    if (*slot == NULL || (*slot)->kind != kind) {
	pm_free(*slot);
	*slot = pm_new(kind);
    }
}

/* pm_conform: make the tree conform to path and suffix (set semantics) */
static pm_node **pm_conform(pm_node **root, const pm_desc *d)
{
    pm_node **cur = root;

    for (int i = 0; i < d->nel; ++i) {
	pm_node *n;
	switch (d->el[i].type) {
	case PM_KEY: {
	    int k;
	    pm_force(cur, 'm');
	    n = *cur;
	    k = pm_map_find(n, d->el[i].key);
	    cur = k >= 0 ? &n->kids[k] : pm_map_add(n, d->el[i].key);
	    break;
	}
	case PM_IDX:
	case PM_INS:
	    pm_force(cur, 'l');
	    n = *cur;
	    if (d->el[i].idx >= n->n) {
		while (n->n <= d->el[i].idx)
		    pm_list_insert(n, n->n);
		cur = &n->kids[d->el[i].idx];
	    } else if (d->el[i].type == PM_INS) {
		cur = pm_list_insert(n, d->el[i].idx);
	    } else {
		cur = &n->kids[d->el[i].idx];
	    }
	    break;
	case PM_APP:
	    pm_force(cur, 'l');
	    n = *cur;
	    cur = pm_list_insert(n, n->n);
	    break;
	}
    }
    if (d->suffix == PM_SUF_MAP)
	pm_force(cur, 'm');
    else if (d->suffix == PM_SUF_LIST)
	pm_force(cur, 'l');
    return cur;
}

/*
 * pm_set: model of vnaproperty_set(&root, arg).  Returns 0, or -1 with
 * *err = allowed errno set.  *loose is set when the call fails on a
 * well-formed descriptor: the manual does not say whether the path has
 * already been made to conform then, so the caller accepts the tree before
 * the call as well as the tree left here (path conformed).
 */
static int pm_set(pm_node **root, const char *arg, int *err, int *loose)
{
    pm_desc d;
    pm_node **slot;

    *err = 0;
    *loose = 0;
    pm_parse(arg, &d);
    if (d.malformed) {
	*err = PM_EINVAL;
	return -1;
    }
    slot = pm_conform(root, &d);
    if (d.suffix == PM_SUF_MAP || d.suffix == PM_SUF_LIST ||
	    (d.rest[0] != '=' && d.rest[0] != '#')) {
	*err = PM_EINVAL;
	*loose = 1;
	return -1;
    }
    if (d.rest[0] == '#') {
	/* "an argument of the form descriptor#": nothing but blanks may
	   follow */
	const char *q = d.rest + 1;
	while (*q != '\0' && isspace((unsigned char)*q))
	    ++q;
	if (*q != '\0') {
	    *err = PM_EINVAL;
	    *loose = 1;
	    return -1;
	}
    }
    pm_free(*slot);
    *slot = d.rest[0] == '=' ? pm_scalar(d.rest + 1) : NULL;
    return 0;
}

/* pm_set_subtree: model of vnaproperty_set_subtree; NULL on error */
static pm_node **pm_set_subtree(pm_node **root, const char *arg, int *err,
	int *loose)
{
    pm_desc d;
    pm_node **slot;

    *err = 0;
    *loose = 0;
    pm_parse(arg, &d);
    if (d.malformed) {
	*err = PM_EINVAL;
	return NULL;
    }
    slot = pm_conform(root, &d);
    if (d.rest[0] != '\0') {
	*err = PM_EINVAL;
	*loose = 1;
	return NULL;
    }
    return slot;
}

/* pm_delete: model of vnaproperty_delete; a failed delete changes nothing */
static int pm_delete(pm_node **root, const char *arg, int *err)
{
    pm_desc d;
    pm_node **slot, *parent;
    int pidx;

    pm_parse(arg, &d);
    *err = pm_lookup(root, &d, &slot, &parent, &pidx);
    if (!d.malformed && d.rest[0] != '\0')
	*err |= PM_EINVAL;
    if (*err)
	return -1;
    if (d.suffix == PM_SUF_NONE && d.nel > 0) {
	if (d.el[d.nel - 1].type == PM_KEY)
	    pm_map_del(parent, pidx);
	else
	    pm_list_del(parent, pidx);
	return 0;
    }
    pm_free(*slot);
    *slot = NULL;
    return 0;
}

/*
 * pm_get: model of the non-modifying functions.  Returns 0 and *node (may be
 * NULL = null document) or the allowed errno set.
 */
static int pm_get(pm_node **root, const char *arg, pm_node **node)
{
    pm_desc d;
    pm_node **slot;
    int err;

    *node = NULL;
    pm_parse(arg, &d);
    err = pm_lookup(root, &d, &slot, NULL, NULL);
    if (!d.malformed && d.rest[0] != '\0')
	err |= PM_EINVAL;
    if (!err)
	*node = *slot;
    return err;
}

/* ------------------------------------------------------------------ */
/* digest of an implementation tree through the public getters          */
/* ------------------------------------------------------------------ */

/*
 * pm_walk: serialise the library tree in the same canonical form as pm_ser,
 * using only vnaproperty_type/count/keys/get/get_subtree/quote_key.
 * Returns 0, or -1 with a description of the inconsistency in `why'.
 */
static int pm_walk(const vnaproperty_t *node, pm_buf *b, char *why, size_t wn,
	int depth)
{
    int t;

    if (depth > 40) {
	snprintf(why, wn, "tree deeper than 40");
	return -1;
    }
    if (node == NULL) {
	pm_buf_puts(b, "~");
	return 0;
    }
    errno = 0;
    t = vnaproperty_type(node, ".");
    switch (t) {
    case 's': {
	const char *v = vnaproperty_get(node, ".");
	if (v == NULL) {
	    snprintf(why, wn, "type(.)='s' but get(.) returned NULL errno=%d",
		    errno);
	    return -1;
	}
	pm_buf_printf(b, "s%zu:", strlen(v));
	pm_buf_puts(b, v);
	return 0;
    }
    case 'm': {
	int count = vnaproperty_count(node, ".");
	const char **keys = vnaproperty_keys(node, "{}");
	int n = 0;
	if (keys == NULL) {
	    snprintf(why, wn, "type(.)='m' but keys({}) returned NULL "
		    "errno=%d", errno);
	    return -1;
	}
	while (keys[n] != NULL)
	    ++n;
	if (n != count) {
	    snprintf(why, wn, "map: count(.)=%d but keys() lists %d", count, n);
	    vf_free((void *)keys);
	    return -1;
	}
	qsort((void *)keys, (size_t)n, sizeof(char *), pm_cmp_str);
	pm_buf_puts(b, "{");
	for (int i = 0; i < n; ++i) {
	    char *q;
	    vnaproperty_t *sub;
	    if (i > 0 && strcmp(keys[i - 1], keys[i]) == 0) {
		snprintf(why, wn, "map lists key '%s' twice", pm_show(keys[i]));
		vf_free((void *)keys);
		return -1;
	    }
	    q = vnaproperty_quote_key(keys[i]);
	    if (q == NULL) {
		snprintf(why, wn, "quote_key('%s') returned NULL",
			pm_show(keys[i]));
		vf_free((void *)keys);
		return -1;
	    }
	    errno = 0;
	    sub = vnaproperty_get_subtree(node, "%s", q);
	    if (sub == NULL && errno != 0) {
		snprintf(why, wn, "key '%s' listed by keys() but "
			"get_subtree('%s') fails with errno=%d",
			pm_show(keys[i]), pm_show(q), errno);
		vf_free(q);
		vf_free((void *)keys);
		return -1;
	    }
	    vf_free(q);
	    pm_buf_printf(b, "k%zu:", strlen(keys[i]));
	    pm_buf_puts(b, keys[i]);
	    pm_buf_puts(b, "=");
	    if (pm_walk(sub, b, why, wn, depth + 1) == -1) {
		vf_free((void *)keys);
		return -1;
	    }
	    pm_buf_puts(b, ",");
	}
	pm_buf_puts(b, "}");
	vf_free((void *)keys);
	return 0;
    }
    case 'l': {
	int count = vnaproperty_count(node, "[]");
	if (count < 0) {
	    snprintf(why, wn, "type(.)='l' but count([])=%d errno=%d", count,
		    errno);
	    return -1;
	}
	pm_buf_puts(b, "[");
	for (int i = 0; i < count; ++i) {
	    vnaproperty_t *sub;
	    errno = 0;
	    sub = vnaproperty_get_subtree(node, "[%d]", i);
	    if (sub == NULL && errno != 0) {
		snprintf(why, wn, "list of %d: get_subtree([%d]) fails with "
			"errno=%d", count, i, errno);
		return -1;
	    }
	    if (pm_walk(sub, b, why, wn, depth + 1) == -1)
		return -1;
	    pm_buf_puts(b, ",");
	}
	pm_buf_puts(b, "]");
	return 0;
    }
    default:
	snprintf(why, wn, "type(.) of a non-NULL node returned %d errno=%d",
		t, errno);
	return -1;
    }
}

#endif /* PM_H */
