/*
 * lin.h: independent dense complex linear algebra in long double
 * (Gaussian elimination with complete pivoting).  Shares no code with
 * libvna's vnacommon_*.
 */
#ifndef LIN_H
#define LIN_H
#include <complex.h>
typedef long double complex lc_t;

/*
 * lin_solve: solve A X = B for square A (n x n, row-major, destroyed);
 * B is n x nrhs and is overwritten with X.  Returns the rank found with
 * relative pivot threshold `tol' (pivot / largest pivot); *pivratio
 * receives smallest/largest pivot magnitude (0 if singular).
 */
extern int lin_solve(int n, int nrhs, lc_t *A, lc_t *B, long double tol,
	long double *pivratio);

/* lin_rank: rank of m x n matrix (destroyed) with relative threshold */
extern int lin_rank(int m, int n, lc_t *A, long double tol,
	long double *pivratio);

/*
 * lin_lstsq: least-squares solution of the m x n (m >= n) system via
 * normal equations in long double; X is n x nrhs.  Returns rank.
 */
extern int lin_lstsq(int m, int n, int nrhs, const lc_t *A, const lc_t *B,
	lc_t *X, long double tol, long double *pivratio);
#endif

/* lin_pivots: complete-pivoting elimination of m x n A (destroyed); stores
   pivot magnitudes (at most min(m,n)) and returns how many were non-zero */
extern int lin_pivots(int m, int n, lc_t *A, long double *piv);
