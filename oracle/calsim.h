/*
 * calsim.h: physical E-network model of a VNA ("efield" in DESIGN.md) and
 * helpers to present simulated measurements of standards to libvna.
 *
 * A VNA with P physical ports, detectors on the first `rows' ports and
 * sources on the first `cols' ports is ideal receivers behind a linear
 * error network
 *
 *      m     = El a_src + Er b_dut          El: rows x cols, Er: rows x P
 *      a_dut = Et a_src + Em b_dut          Et: P x cols,    Em: P x P
 *      b_dut = S a_dut
 *
 * Measurements are obtained by solving these wave equations directly with
 * oracle/lin.c, column by column.  No T or U matrix is ever formed.
 * For the column-system types (UE14, E12) every source column has its own
 * network (switch terms).
 */
#ifndef CALSIM_H
#define CALSIM_H
#include <complex.h>
#include <stdbool.h>
#include <vnacal.h>
#include "lin.h"

#define CS_MAXP	4		/* max physical ports */
#define CS_MAXF	8		/* max frequencies */
#define CS_MAXSTD 32		/* max standards in a recipe */
#define CS_MAXPARAM 40		/* max parameters in a scenario */

typedef double complex cs_c;

/* one error network (one frequency, one column system) */
typedef struct cs_net {
    cs_c El[CS_MAXP * CS_MAXP];	/* [r * P + c] */
    cs_c Er[CS_MAXP * CS_MAXP];	/* [r * P + p] */
    cs_c Et[CS_MAXP * CS_MAXP];	/* [p * P + c] */
    cs_c Em[CS_MAXP * CS_MAXP];	/* [p * P + q] */
} cs_net;

typedef struct cs_vna {
    vnacal_type_t type;
    int rows, cols, P;
    int nsys;			/* 1, or cols for UE14/E12 */
    int nf;
    int variant;		/* network family member */
    double f[CS_MAXF];
    cs_net net[CS_MAXF][CS_MAXP];	/* [findex][system] */
    cs_c gamma_unused[CS_MAXP];	/* what sits on ports a standard leaves open */
} cs_vna;

/* parameter kinds for standards */
enum { CSP_PREDEF, CSP_SCALAR, CSP_VECTOR, CSP_UNKNOWN, CSP_CORRELATED };
typedef struct cs_param {
    int kind;
    int predef;			/* VNACAL_MATCH/OPEN/SHORT for CSP_PREDEF */
    /* true value: (c0 + c1 x) / (1 + c2 x), x = normalised frequency */
    cs_c c0, c1, c2;
    /* where not 0 the value above is multiplied by exp(j warp x): no
       rational function of low order any more */
    double warp;
    /* CSP_VECTOR: own grid (npts points over [fmin*lo, fmax*hi]) */
    int npts;
    double lo, hi;
    /* CSP_UNKNOWN/CORRELATED: initial guess = true * guess_scale; other */
    cs_c guess_scale;
    int other;			/* index of related param (correlated) */
    double sigma;		/* correlated sigma */
    int handle;			/* libvna handle once made */
} cs_param;

/* how a standard is handed to libvna */
enum { CSE_SINGLE, CSE_DOUBLE, CSE_THROUGH, CSE_LINE, CSE_MAPPED };
typedef struct cs_std {
    int entry;			/* CSE_* entry point */
    int np;			/* ports of the standard (1..P) */
    int port[CS_MAXP];		/* VNA ports, 1-based, in standard order */
    int sp[CS_MAXP * CS_MAXP];	/* parameter index per S cell (np x np);
				   -1: library-implied (through/zero) */
    cs_c sv[CS_MAXP * CS_MAXP];	/* value for implied cells */
    bool abbrev_rows, abbrev_cols; /* give np rows / np columns of M */
    bool null_map;		/* pass port_map == NULL (np==P, in order) */
    int id;			/* identity of the physical measurement (noise) */
} cs_std;

typedef struct cs_scenario {
    cs_vna vna;
    int nparam;
    cs_param param[CS_MAXPARAM];
    int nstd;
    cs_std std[CS_MAXSTD];
    bool ab;			/* present a/b instead of m */
    int a_variant;		/* which 'a' matrix family */
    cs_c ab_scale;		/* common factor on a and b (0 = none) */
    double noise;		/* deterministic pseudo-noise amplitude on the
				   measurements of standards (0 = exact) */
    /* Gaussian measurement noise: realisation index (0 = none), noise
       floor and signal-proportional part, total complex variance sigma^2 */
    int gauss_real;
    double sigma_nf, sigma_tr;
    /* displace every measured cell of the standard with this id (0 = none)
       by displace_sigmas standard deviations of the declared noise */
    int displace_id;
    double displace_sigmas;
    /* only at this frequency index + 1 (0 = at every frequency) */
    int displace_findex1;
    /* factor on the declared noise per frequency index (0 = 1) */
    double sigma_fscale[CS_MAXF];
} cs_scenario;

/* ---- physical model ------------------------------------------------ */

/* x = normalised frequency in [0,1] for findex */
extern double cs_xf(const cs_vna *v, double f);

/* build a network family: variant 0 near-ideal, 1 strong mismatch,
   2 everything the type can represent non-zero; smooth in frequency */
extern void cs_make_vna(cs_vna *v, vnacal_type_t type, int rows, int cols,
	int nf, int variant);
/* same with an explicit frequency list */
extern void cs_make_vna_f(cs_vna *v, vnacal_type_t type, int rows, int cols,
	int nf, const double *fvec, int variant);
/* measurements of standard k for every frequency, noise included */
extern int cs_std_measure(const cs_scenario *sc, int k, cs_c Mf[][CS_MAXP * CS_MAXP]);

/* error network of system sys at an arbitrary frequency */
extern void cs_net_at(const cs_vna *v, double f, int sys, cs_net *n);

/* true value of parameter at frequency f */
extern cs_c cs_param_value(const cs_vna *v, const cs_param *p, double f);

/* full physical S (P x P) of standard at frequency index */
extern void cs_std_S(const cs_scenario *sc, const cs_std *st, int findex,
	cs_c *S);

/* measurement M (rows x cols) of a P x P device S at findex;
   returns 0, or -1 if the wave equations are singular */
extern int cs_measure(const cs_vna *v, int findex, const cs_c *S, cs_c *M);

/* ---- presenting to libvna ------------------------------------------ */

/* create vnacal parameters for the scenario (fills handle); 0 / -1 */
/* amplitude of a point-by-point perturbation of tabulated (vector)
   parameter values; 0 by default */
extern double cs_vector_wiggle;
/* tabulated parameters get a grid with the first calibration frequency as
   an interior point and the other calibration frequencies between points */
extern int cs_vector_on_cal;
/* cs_make_params first creates this many unrelated scalar parameters (and
   leaves them), so that the scenario's handles start at 3 + cs_param_fillers:
   0 by default */
/* where not 0: cs_build sets both convergence tolerances of the iterative
   solver to this */
extern double cs_solve_tolerance;
/* where not 0: every reading of the simulated instrument (standards and
   devices alike) is multiplied by this */
extern double cs_receiver_gain;
extern int cs_param_fillers;
/* scalar standards of the recipes are purely real (a 75 ohm load, an
   attenuator): set before cs_recipe */
extern int cs_real_scalars;
/* cs_identifiable counts the tie of every correlated parameter to its
   `other' as one more equation (and unknowns that are only referred to as
   `other' as unknowns): for sets that are determined only together with
   these ties */
extern int cs_ident_priors;
/* system impedance cs_build declares with vnacal_new_set_z0 (0: default) */
extern cs_c cs_system_z0;
/* set by cs_apply: the result object's z0 differs from vnacal_get_z0 */
extern int cs_apply_z0_mismatch;
extern cs_c cs_apply_z0_expected, cs_apply_z0_got;
extern int cs_make_params(vnacal_t *vcp, cs_scenario *sc);
extern void cs_delete_params(vnacal_t *vcp, cs_scenario *sc);

/* add standard k of the scenario to vnp through its entry point; returns
   the library's return value */
extern int cs_add_std(vnacal_new_t *vnp, const cs_scenario *sc, int k);

/* convenience: alloc vnp, set frequencies, add every standard; returns vnp
   or NULL (errno kept) */
extern vnacal_new_t *cs_build(vnacal_t *vcp, cs_scenario *sc);

/*
 * apply calibration ci to the measurement of DUT S (P x P per frequency,
 * Sdut[findex][P*P]) and return max abs error against the truth;
 * uses vnacal_apply_m (or vnacal_apply when sc->ab).  For 1x2 / 2x1
 * calibrations builds the 2x2 matrix with the reversed-DUT row/column.
 * Returns the library's return code in *rc.
 */
extern int cs_apply(vnacal_t *vcp, int ci, const cs_scenario *sc,
	cs_c Sdut[][CS_MAXP * CS_MAXP], cs_c Sout[][CS_MAXP * CS_MAXP]);
extern double cs_apply_error(vnacal_t *vcp, int ci, const cs_scenario *sc,
	cs_c Sdut[][CS_MAXP * CS_MAXP], int *rc);

/*
 * cs_terms_residual (oracle/csterms.c): largest relative residual of the
 * documented M/S matrix equation of vnacal_layout.h over every standard,
 * frequency and cell, evaluated with the solved error terms of calibration
 * ci and the physical (noise-free) M and S.  Returns 0, or -1 if the
 * calibration cannot be inspected.
 */
extern int cs_terms_residual(vnacal_t *vcp, int ci, const cs_scenario *sc,
	long double *worst);
/*
 * cs_terms_gradient (oracle/csterms.c): with inconsistent measurements
 * (sc->noise) the solved terms must minimise the sum of squares of the
 * documented equations the standards contribute; exact test through the
 * orthogonality of the residual to its derivative by every free term.
 * m form, every type but E12.  *worst: largest cosine, *rnorm: size of the
 * residual relative to the terms (0: nothing tested), *lworst: largest
 * relative deviation of an outside leakage term from the mean of its cells.
 */
/*
 * cs_terms_rank16 (oracle/csterms.c): for T16 / U16, whether the selected
 * standards (bit mask) determine the error terms, decided by the rank of the
 * documented linear system formed from exact measurements; standards that
 * leave ports open contribute their documented equations.  1 / 0, -1 when
 * not applicable.
 */
extern int cs_terms_rank16(const cs_scenario *sc, unsigned mask,
	long double *margin, int *eqs, int *unknowns);
extern int cs_terms_gradient(vnacal_t *vcp, int ci, const cs_scenario *sc,
	long double *worst, long double *rnorm, long double *lworst);

/* can vnacal_apply be used with this shape? */
extern bool cs_apply_ok(const cs_vna *v);

/* DUT alphabet member k (P x P) at findex */
extern void cs_dut(const cs_vna *v, int k, int findex, cs_c *S);

/* ---- recipes -------------------------------------------------------- */

/*
 * cs_recipe: fill params and standards for sc->vna.
 *   recipe 0: SOL reflects on every port that can both drive and detect,
 *             through + known line from port 1 to every other port
 *             (8/10/14-term types); for the 16-term types: P=1 SOL,
 *             P=2 {T, MM, SO, OS, SM, OM}, P>2 dense full-matrix standards
 *   recipe 1: double reflects + through/line on every port pair
 *             (16-term: dense full-matrix standards for every P)
 *   recipe 2: SOL reflects measured on their own port only, an isolation
 *             standard (loads on all ports, full matrix, off-diagonal
 *             cells explicitly zero) as the only source of the leakage
 *             terms, through + line (8/10/14-term types, P >= 2)
 *   ev: entry-point variant 0 native, 1 alternative (line for through /
 *       double reflect, mapped for reflect), 2 everything as mapped matrix
 *   av: 0 full M, 1 rows abbreviated, 2 columns abbreviated, 3 both
 *       (applied per standard where the type and the ports allow it)
 *   pv: 0 ports ascending, 1 standard ports listed in reverse order
 *   kv: 0 predefined/scalar parameters, 1 vector parameters on their own
 *       frequency grid, 2 scalar handles instead of predefined constants
 * Returns 0, or -1 if the combination does not exist (e.g. recipe 1 with
 * one port).
 */
extern int cs_recipe(cs_scenario *sc, int recipe, int ev, int av, int pv,
	int kv);

/* ---- identifiability (independent of libvna's T/U algebra) --------- */

/*
 * cs_identifiable: Jacobian-rank test on the physical model.  Considers the
 * first nstd standards of the scenario (mask: bit k = standard k is in) at
 * frequency index 0.  Returns:
 *    1  error terms determined, *margin = pivot ratio of the Jacobian
 *    0  not determined (rank deficient by the 1e-7 threshold)
 * *equations receives the number of scalar measurement equations libvna
 * can form from the set (cells with a signal path, or all cells for the
 * 16-term types), *unknowns the number of unknown error terms per the
 * table in vnacal_new(3).
 */
extern int cs_identifiable(const cs_scenario *sc, unsigned mask,
	long double *margin, int *equations, int *unknowns);
/* set by the last cs_identifiable call: equations summed over all systems,
   and unknown error terms of all systems plus the unknown standard
   parameters used by the selected standards */
extern int cs_last_eq_total, cs_last_unknown_total;

/* textual description for samples / replays */
extern void cs_describe(const cs_scenario *sc, char *buf, size_t n);

#endif
