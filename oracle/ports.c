#include <math.h>
#include <stdlib.h>
#include <string.h>
#include "ports.h"

const char ports_letter[PT_N + 1] = "stuzyhgab";

/* functional kinds */
enum { F_V, F_I, F_NI, F_A, F_B };

static void functional(int kind, int port, int n, const double complex *z0,
	lc_t *row)
{
    for (int j = 0; j < 2 * n; ++j)
	row[j] = 0.0L;
    lc_t Z = (lc_t)z0[port];
    long double K = 1.0L / sqrtl(fabsl(creall(Z)));
    switch (kind) {
    case F_V:  row[2 * port] = 1.0L; break;
    case F_I:  row[2 * port + 1] = 1.0L; break;
    case F_NI: row[2 * port + 1] = -1.0L; break;
    case F_A:
	row[2 * port] = 0.5L * K;
	row[2 * port + 1] = 0.5L * K * Z;
	break;
    case F_B:
	row[2 * port] = 0.5L * K;
	row[2 * port + 1] = -0.5L * K * conjl(Z);
	break;
    }
}

/* (kind, port) of the dependent and independent variables of a type */
typedef struct { int kind, port; } fn_t;

static void relation_fns(int type, int n, fn_t *d, fn_t *ind)
{
    static const int k2[PT_N][8] = {
	/* dep1      dep2      ind1      ind2   (kind, port) */
	[PT_T] = { F_B, 0, F_A, 0, F_A, 1, F_B, 1 },
	[PT_U] = { F_A, 1, F_B, 1, F_B, 0, F_A, 0 },
	[PT_H] = { F_V, 0, F_I, 1, F_I, 0, F_V, 1 },
	[PT_G] = { F_I, 0, F_V, 1, F_V, 0, F_I, 1 },
	[PT_A] = { F_V, 0, F_I, 0, F_V, 1, F_NI, 1 },
	[PT_B] = { F_V, 1, F_NI, 1, F_V, 0, F_I, 0 },
    };
    if (type == PT_S || type == PT_Z || type == PT_Y) {
	for (int i = 0; i < n; ++i) {
	    d[i].port = ind[i].port = i;
	    d[i].kind = type == PT_S ? F_B : type == PT_Z ? F_V : F_I;
	    ind[i].kind = type == PT_S ? F_A : type == PT_Z ? F_I : F_V;
	}
	return;
    }
    d[0].kind = k2[type][0];   d[0].port = k2[type][1];
    d[1].kind = k2[type][2];   d[1].port = k2[type][3];
    ind[0].kind = k2[type][4]; ind[0].port = k2[type][5];
    ind[1].kind = k2[type][6]; ind[1].port = k2[type][7];
}

/* fill D (n x 2n) and Ind (n x 2n) for the type */
static void relation(int type, int n, const double complex *z0,
	lc_t *D, lc_t *Ind)
{
    fn_t d[16], ind[16];
    int N = 2 * n;

    relation_fns(type, n, d, ind);
    for (int i = 0; i < n; ++i) {
	functional(d[i].kind, d[i].port, n, z0, D + i * N);
	functional(ind[i].kind, ind[i].port, n, z0, Ind + i * N);
    }
}

/*
 * natural magnitude of a functional on a state: derived from the power
 * waves |a_p| + |b_p| at its port, so that "zero up to rounding" can be
 * told apart from "small but real" across the mixed units of v and i.
 */
static long double natural_scale(int kind, int port, int n,
	const double complex *z0, const lc_t *x /* state, stride 1 */)
{
    lc_t ra[32], rb[32];
    lc_t Z = (lc_t)z0[port];
    long double K = 1.0L / sqrtl(fabsl(creall(Z)));
    long double w = 0;

    /* total signal level of the state in power-wave units */
    for (int p = 0; p < n; ++p) {
	lc_t a = 0, b = 0;
	functional(F_A, p, n, z0, ra);
	functional(F_B, p, n, z0, rb);
	for (int j = 0; j < 2 * n; ++j) {
	    a += ra[j] * x[j];
	    b += rb[j] * x[j];
	}
	w += cabsl(a) + cabsl(b);
    }
    /* expressed in the units of the functional at its own port */
    switch (kind) {
    case F_V:  return w * cabsl(Z) / (K * fabsl(creall(Z)));
    case F_I:
    case F_NI: return w / (K * fabsl(creall(Z)));
    default:   return w;
    }
}

/*
 * states: compute the n basis states x_k (columns of X, 2n x n) of the
 * network described by min: Ind x_k = e_k, D x_k = min e_k.
 */
static int basis_states(int n, int tin, const double complex *min,
	const double complex *z0, lc_t *X)
{
    int N = 2 * n;
    lc_t *M = malloc((size_t)N * N * sizeof(lc_t));
    lc_t *D = malloc((size_t)n * N * sizeof(lc_t));
    lc_t *Ind = malloc((size_t)n * N * sizeof(lc_t));
    long double pr;
    int rank;

    relation(tin, n, z0, D, Ind);
    memcpy(M, D, (size_t)n * N * sizeof(lc_t));
    memcpy(M + n * N, Ind, (size_t)n * N * sizeof(lc_t));
    for (int k = 0; k < n; ++k) {
	for (int r = 0; r < n; ++r) {
	    X[r * n + k] = (lc_t)min[r * n + k];
	    X[(n + r) * n + k] = (r == k) ? 1.0L : 0.0L;
	}
    }
    rank = lin_solve(N, n, M, X, 1e-14L, &pr);
    free(M);
    free(D);
    free(Ind);
    return rank == N ? 0 : -1;
}

static int finite_c(double complex z)
{
    return isfinite(creal(z)) && isfinite(cimag(z));
}

int ports_check(int n, int tin, const double complex *min,
	int tout, const double complex *mout, const double complex *z0,
	long double tol, long double sing, long double *resid,
	long double *pivratio)
{
    int N = 2 * n;
    lc_t *X = malloc((size_t)N * n * sizeof(lc_t));
    lc_t *D = malloc((size_t)n * N * sizeof(lc_t));
    lc_t *Ind = malloc((size_t)n * N * sizeof(lc_t));
    lc_t *J = malloc((size_t)n * n * sizeof(lc_t));
    lc_t *J2 = malloc((size_t)n * n * sizeof(lc_t));
    lc_t *Dx = malloc((size_t)n * n * sizeof(lc_t));
    long double *Dabs = malloc((size_t)n * n * sizeof(long double));
    int rv = PORTS_OK;
    long double worst = 0.0L;

    if (resid)
	*resid = 0.0L;
    if (pivratio)
	*pivratio = 0.0L;
    for (int i = 0; i < n * n; ++i) {
	if (!finite_c(min[i])) {
	    rv = PORTS_SINGULAR;
	    goto out;
	}
    }
    if (basis_states(n, tin, min, z0, X) != 0) {
	rv = PORTS_SINGULAR;
	goto out;
    }
    relation(tout, n, z0, D, Ind);
    fn_t dfn[16], ifn[16];
    relation_fns(tout, n, dfn, ifn);
    /* J[c][k] = Ind_c . x_k ; Dx[r][k] = D_r . x_k */
    for (int r = 0; r < n; ++r) {
	for (int k = 0; k < n; ++k) {
	    lc_t sj = 0, sd = 0;
	    long double ad = 0;
	    lc_t xk[32];
	    for (int j = 0; j < N; ++j) {
		xk[j] = X[j * n + k];
		sj += Ind[r * N + j] * X[j * n + k];
		sd += D[r * N + j] * X[j * n + k];
		ad += cabsl(D[r * N + j] * X[j * n + k]);
	    }
	    /* a value that is pure cancellation noise is an exact zero */
	    if (cabsl(sj) <= 1e-13L * natural_scale(ifn[r].kind, ifn[r].port,
			n, z0, xk))
		sj = 0;
	    J[r * n + k] = sj;
	    Dx[r * n + k] = sd;
	    /* scale of the dependent side: term magnitudes plus the natural
	       magnitude of the variable (it may vanish by cancellation) */
	    Dabs[r * n + k] = ad + natural_scale(dfn[r].kind, dfn[r].port,
		    n, z0, xk);
	}
    }
    /* singular set: output independent variables (nearly) dependent */
    memcpy(J2, J, (size_t)n * n * sizeof(lc_t));
    for (int r = 0; r < n; ++r) {
	long double mx = 0;
	for (int k = 0; k < n; ++k)
	    if (cabsl(J2[r * n + k]) > mx) mx = cabsl(J2[r * n + k]);
	if (mx > 0)
	    for (int k = 0; k < n; ++k) J2[r * n + k] /= mx;
    }
    for (int k = 0; k < n; ++k) {
	long double mx = 0;
	for (int r = 0; r < n; ++r)
	    if (cabsl(J2[r * n + k]) > mx) mx = cabsl(J2[r * n + k]);
	if (mx > 0)
	    for (int r = 0; r < n; ++r) J2[r * n + k] /= mx;
    }
    {
	long double pr = 0;
	int rank = lin_rank(n, n, J2, 1e-13L, &pr);
	if (pivratio)
	    *pivratio = rank < n ? 0.0L : pr;
	if (rank < n || pr < sing) {
	    rv = PORTS_SINGULAR;
	    goto out;
	}
    }
    for (int i = 0; i < n * n; ++i) {
	if (!finite_c(mout[i])) {
	    rv = PORTS_MISMATCH;
	    worst = HUGE_VALL;
	    goto out;
	}
    }
    for (int r = 0; r < n; ++r) {
	for (int k = 0; k < n; ++k) {
	    lc_t s = Dx[r * n + k];
	    long double scale = Dabs[r * n + k];
	    for (int c = 0; c < n; ++c) {
		lc_t t = (lc_t)mout[r * n + c] * J[c * n + k];
		s -= t;
		scale += cabsl(t);
	    }
	    long double rel = scale > 0 ? cabsl(s) / scale : 0.0L;
	    if (rel > worst)
		worst = rel;
	}
    }
    if (worst > tol)
	rv = PORTS_MISMATCH;
out:
    if (resid)
	*resid = worst;
    free(X); free(D); free(Ind); free(J); free(J2); free(Dx); free(Dabs);
    return rv;
}

int ports_convert(int n, int tin, const double complex *min,
	int tout, double complex *mout, const double complex *z0)
{
    int N = 2 * n;
    lc_t *X = malloc((size_t)N * n * sizeof(lc_t));
    lc_t *D = malloc((size_t)n * N * sizeof(lc_t));
    lc_t *Ind = malloc((size_t)n * N * sizeof(lc_t));
    lc_t *Jt = malloc((size_t)n * n * sizeof(lc_t));
    lc_t *Dt = malloc((size_t)n * n * sizeof(lc_t));
    int rv = PORTS_OK;

    if (basis_states(n, tin, min, z0, X) != 0) {
	rv = PORTS_SINGULAR;
	goto out;
    }
    relation(tout, n, z0, D, Ind);
    /* Mout J = Dx  =>  J^T Mout^T = Dx^T */
    for (int r = 0; r < n; ++r)
	for (int k = 0; k < n; ++k) {
	    lc_t sj = 0, sd = 0;
	    for (int j = 0; j < N; ++j) {
		sj += Ind[r * N + j] * X[j * n + k];
		sd += D[r * N + j] * X[j * n + k];
	    }
	    Jt[k * n + r] = sj;
	    Dt[k * n + r] = sd;
	}
    {
	long double pr;
	if (lin_solve(n, n, Jt, Dt, 1e-13L, &pr) != n) {
	    rv = PORTS_SINGULAR;
	    goto out;
	}
    }
    for (int r = 0; r < n; ++r)
	for (int c = 0; c < n; ++c)
	    mout[r * n + c] = (double complex)Dt[c * n + r];
out:
    free(X); free(D); free(Ind); free(Jt); free(Dt);
    return rv;
}

int ports_zin(int n, int tin, const double complex *min,
	const double complex *z0, double complex *zi)
{
    int N = 2 * n;
    lc_t *D = malloc((size_t)n * N * sizeof(lc_t));
    lc_t *Ind = malloc((size_t)n * N * sizeof(lc_t));
    lc_t *M = malloc((size_t)N * N * sizeof(lc_t));
    lc_t *rhs = malloc((size_t)N * sizeof(lc_t));
    int rv = PORTS_OK;

    relation(tin, n, z0, D, Ind);
    for (int k = 0; k < n; ++k) {
	/* rows 0..n-1: (D - min Ind) x = 0 */
	for (int r = 0; r < n; ++r) {
	    for (int j = 0; j < N; ++j) {
		lc_t s = D[r * N + j];
		for (int c = 0; c < n; ++c)
		    s -= (lc_t)min[r * n + c] * Ind[c * N + j];
		M[r * N + j] = s;
	    }
	    rhs[r] = 0;
	}
	/* terminations: v_j + Z_j i_j = 0 for j != k ; i_k = 1 */
	int row = n;
	for (int j = 0; j < n; ++j) {
	    for (int c = 0; c < N; ++c)
		M[row * N + c] = 0;
	    if (j == k) {
		M[row * N + 2 * j + 1] = 1.0L;
		rhs[row] = 1.0L;
	    } else {
		M[row * N + 2 * j] = 1.0L;
		M[row * N + 2 * j + 1] = (lc_t)z0[j];
		rhs[row] = 0;
	    }
	    ++row;
	}
	/* equilibrate rows */
	for (int r = 0; r < N; ++r) {
	    long double mx = 0;
	    for (int c = 0; c < N; ++c)
		if (cabsl(M[r * N + c]) > mx) mx = cabsl(M[r * N + c]);
	    if (mx > 0) {
		for (int c = 0; c < N; ++c) M[r * N + c] /= mx;
		rhs[r] /= mx;
	    }
	}
	long double pr;
	if (lin_solve(N, 1, M, rhs, 1e-13L, &pr) != N || pr < 1e-9L) {
	    rv = PORTS_SINGULAR;
	    zi[k] = NAN;
	    continue;
	}
	zi[k] = (double complex)rhs[2 * k];
    }
    free(D); free(Ind); free(M); free(rhs);
    return rv;
}
