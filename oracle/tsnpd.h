/*
 * tsnpd.h: independent reader and writer for Touchstone 1, Touchstone 2
 * and the NPD format of libvna.
 *
 * Written from the Touchstone 2.0 specification and from the NPD header as
 * the library's documentation / self-describing file header shows it; no
 * code is shared with libvna's parser or printer.
 */
#ifndef TSNPD_H
#define TSNPD_H
#include <complex.h>

#define TSNPD_MAXP	8		/* ports */
#define TSNPD_MAXF	3		/* frequencies */
#define TSNPD_MAXFORM	4		/* NPD parameter forms per file */
#define TSNPD_MAXNUM	(2 * TSNPD_MAXP * TSNPD_MAXP)

enum { TSNPD_TS1 = 1, TSNPD_TS2 = 2, TSNPD_NPD = 3 };

enum {
    TSNPD_K_MATRIX,	/* letter S T U Z Y H G A B, enc R/M/D */
    TSNPD_K_ZIN,	/* enc R/M */
    TSNPD_K_PRC, TSNPD_K_PRL, TSNPD_K_SRC, TSNPD_K_SRL,
    TSNPD_K_IL, TSNPD_K_RL, TSNPD_K_VSWR
};

typedef struct tsnpd_form {
    int kind;
    char letter;	/* matrix kinds */
    char enc;		/* 'R', 'M', 'D' or 0 */
    int nnum;		/* numbers per frequency */
    double num[TSNPD_MAXF][TSNPD_MAXNUM];	/* as printed, file order */
} tsnpd_form;

typedef struct tsnpd_net {
    int filetype;			/* TSNPD_TS1 / TS2 / NPD */
    int ports, nfreq;
    double freq[TSNPD_MAXF];		/* Hz */
    int fz0;				/* per-frequency z0 (NPD only) */
    double complex z0[TSNPD_MAXF][TSNPD_MAXP];	/* row 0 unless fz0 */

    /* Touchstone */
    char letter;			/* S Z Y H G */
    char enc;				/* R M D */
    double R;				/* option line */
    int has_reference;
    int matrix_format;			/* 0 Full, 1 Upper, 2 Lower */
    int order_21_12;
    int noise_rows;
    int has_end;
    int layout_ok;			/* v1: line layout as the spec shows */
    /* number pairs as printed, arranged as a full row-major matrix */
    double num[TSNPD_MAXF][TSNPD_MAXNUM];
    double complex raw[TSNPD_MAXF][TSNPD_MAXP * TSNPD_MAXP];  /* as stored */
    double complex data[TSNPD_MAXF][TSNPD_MAXP * TSNPD_MAXP]; /* physical */

    /* NPD */
    int magic_ok;			/* first line is #NPD */
    int nforms;
    tsnpd_form form[TSNPD_MAXFORM];
    int fprecision, dprecision;
    int legend_count;			/* "# field N:" lines */
    int legend_ok;			/* numbered 1..N and named as expected */
    int fields_per_line;

    char err[256];
} tsnpd_net;

/* decode a printed number pair */
extern double complex tsnpd_decode(char enc, double a, double b);

/* parse one (lower/upper/mixed case) format specifier; 0 on success */
extern int tsnpd_parse_spec(const char *spec, int ports, tsnpd_form *f);

/*
 * tsnpd_read: filetype is TSNPD_NPD or 0 (Touchstone, version from the
 * file contents).  ports_hint is what a Touchstone 1 reader takes from the
 * .sNp extension.  Returns 0 or -1 with out->err set.
 */
extern int tsnpd_read(const char *path, int filetype, int ports_hint,
	tsnpd_net *out);

/* ---------------------------------------------------------------- */
/* writer: ground truth = ports, nfreq, freq, z0, letter, data       */

typedef struct tsnpd_spell {
    int version;	/* 1 or 2 */
    int unit;		/* 0 Hz 1 kHz 2 MHz 3 GHz */
    char enc;		/* R M D */
    int matfmt;		/* 0 Full(keyword omitted) 1 Full(explicit) 2 Upper 3 Lower */
    int order;		/* 0 12_21, 1 21_12 (v2 two-port) */
    int kwcase;		/* 0 canonical 1 lower 2 upper 3 alternating */
    int comments;	/* 0 none 1 end-of-line 2 own lines 3 both */
    int blank;		/* 0 none 1 blank lines 2 whitespace-only lines */
    int space;		/* 0 single 1 tabs 2 leading/trailing + runs */
    int linebreak;	/* v2: 0 canonical 1 one line per frequency
			   2 one pair per line 3 one number per line */
    int optperm;	/* 0..23 order of unit/param/format/R */
    int optmask;	/* bit i set: omit field i (must equal its default) */
    int noise;		/* 0 none 1 noise block (two-port) */
    int refstyle;	/* v2: 0 R only / one line if unequal, 1 explicit
			   one line, 2 explicit, values on following lines */
    int kworder;	/* v2: 0 canonical 1 reversed 2 rotated */
    int intzero;	/* v2: 1 counts written with a leading zero ("03") */
} tsnpd_spell;

#define TSNPD_NA	1	/* spelling not applicable to this network */

extern void tsnpd_spell_init(tsnpd_spell *s, int version);
extern int tsnpd_write_ts(const char *path, const tsnpd_net *gt,
	const tsnpd_spell *s);

typedef struct tsnpd_npd_spell {
    int perm;		/* 0..5039 permutation of the 7 header lines */
    char enc;		/* R M D */
    int namecase;	/* 0 "Sri" 1 lower 2 upper */
    int blank;		/* 0 none 1 blank lines 2 whitespace-only lines */
    int comments;	/* 0 none 1 comment lines 2 legend as the library */
    int space;		/* 0 single 1 tabs 2 leading/trailing + runs */
    int pfcase;		/* 0 PER-FREQUENCY 1 per-frequency */
    int intzero;	/* 1 counts written with a leading zero ("03") */
} tsnpd_npd_spell;

extern void tsnpd_npd_spell_init(tsnpd_npd_spell *s);
extern int tsnpd_write_npd(const char *path, const tsnpd_net *gt,
	const tsnpd_npd_spell *s);

#endif
