#include <math.h>
#include <stdlib.h>
#include <string.h>
#include "lin.h"

static int eliminate(int m, int n, int nrhs, lc_t *A, lc_t *B, int *colperm,
	long double tol, long double *pivratio)
{
    int rank = 0;
    long double first = 0.0L, last = 0.0L;
    int steps = m < n ? m : n;

    for (int j = 0; j < n; ++j)
	colperm[j] = j;
    for (int k = 0; k < steps; ++k) {
	int pi = -1, pj = -1;
	long double best = 0.0L;
	for (int i = k; i < m; ++i) {
	    for (int j = k; j < n; ++j) {
		long double a = cabsl(A[i * n + j]);
		if (a > best) {
		    best = a;
		    pi = i;
		    pj = j;
		}
	    }
	}
	if (pi < 0 || best == 0.0L || !(best == best))
	    break;
	if (k == 0)
	    first = best;
	if (best < tol * first)
	    break;
	last = best;
	if (pi != k) {
	    for (int j = 0; j < n; ++j) {
		lc_t t = A[k * n + j];
		A[k * n + j] = A[pi * n + j];
		A[pi * n + j] = t;
	    }
	    for (int j = 0; j < nrhs; ++j) {
		lc_t t = B[k * nrhs + j];
		B[k * nrhs + j] = B[pi * nrhs + j];
		B[pi * nrhs + j] = t;
	    }
	}
	if (pj != k) {
	    for (int i = 0; i < m; ++i) {
		lc_t t = A[i * n + k];
		A[i * n + k] = A[i * n + pj];
		A[i * n + pj] = t;
	    }
	    int t = colperm[k];
	    colperm[k] = colperm[pj];
	    colperm[pj] = t;
	}
	for (int i = k + 1; i < m; ++i) {
	    lc_t f = A[i * n + k] / A[k * n + k];
	    if (f == 0.0L)
		continue;
	    for (int j = k; j < n; ++j)
		A[i * n + j] -= f * A[k * n + j];
	    for (int j = 0; j < nrhs; ++j)
		B[i * nrhs + j] -= f * B[k * nrhs + j];
	}
	++rank;
    }
    if (pivratio != NULL)
	*pivratio = (rank == steps && first > 0.0L) ? last / first : 0.0L;
    return rank;
}

int lin_solve(int n, int nrhs, lc_t *A, lc_t *B, long double tol,
	long double *pivratio)
{
    int *cp = malloc((size_t)(n > 0 ? n : 1) * sizeof(int));
    int rank = eliminate(n, n, nrhs, A, B, cp, tol, pivratio);

    if (rank == n) {
	lc_t *X = malloc((size_t)(n * nrhs + 1) * sizeof(lc_t));
	for (int r = 0; r < nrhs; ++r) {
	    for (int i = n - 1; i >= 0; --i) {
		lc_t s = B[i * nrhs + r];
		for (int j = i + 1; j < n; ++j)
		    s -= A[i * n + j] * X[j * nrhs + r];
		X[i * nrhs + r] = s / A[i * n + i];
	    }
	}
	/* undo column permutation */
	for (int i = 0; i < n; ++i)
	    for (int r = 0; r < nrhs; ++r)
		B[cp[i] * nrhs + r] = X[i * nrhs + r];
	free(X);
    }
    free(cp);
    return rank;
}

int lin_rank(int m, int n, lc_t *A, long double tol, long double *pivratio)
{
    int *cp = malloc((size_t)(n > 0 ? n : 1) * sizeof(int));
    lc_t dummy = 0;
    int rank = eliminate(m, n, 0, A, &dummy, cp, tol, pivratio);
    free(cp);
    return rank;
}

int lin_lstsq(int m, int n, int nrhs, const lc_t *A, const lc_t *B,
	lc_t *X, long double tol, long double *pivratio)
{
    lc_t *N = calloc((size_t)(n * n + 1), sizeof(lc_t));
    int rank;

    for (int i = 0; i < n; ++i)
	for (int j = 0; j < n; ++j) {
	    lc_t s = 0;
	    for (int k = 0; k < m; ++k)
		s += conjl(A[k * n + i]) * A[k * n + j];
	    N[i * n + j] = s;
	}
    for (int i = 0; i < n; ++i)
	for (int r = 0; r < nrhs; ++r) {
	    lc_t s = 0;
	    for (int k = 0; k < m; ++k)
		s += conjl(A[k * n + i]) * B[k * nrhs + r];
	    X[i * nrhs + r] = s;
	}
    rank = lin_solve(n, nrhs, N, X, tol, pivratio);
    free(N);
    return rank;
}

int lin_pivots(int m, int n, lc_t *A, long double *piv)
{
    int steps = m < n ? m : n;
    int count = 0;

    for (int k = 0; k < steps; ++k) {
	int pi = -1, pj = -1;
	long double best = 0.0L;
	for (int i = k; i < m; ++i)
	    for (int j = k; j < n; ++j) {
		long double a = cabsl(A[i * n + j]);
		if (a > best) {
		    best = a;
		    pi = i;
		    pj = j;
		}
	    }
	if (pi < 0 || best == 0.0L || !(best == best))
	    break;
	piv[count++] = best;
	if (pi != k)
	    for (int j = 0; j < n; ++j) {
		lc_t t = A[k * n + j];
		A[k * n + j] = A[pi * n + j];
		A[pi * n + j] = t;
	    }
	if (pj != k)
	    for (int i = 0; i < m; ++i) {
		lc_t t = A[i * n + k];
		A[i * n + k] = A[i * n + pj];
		A[i * n + pj] = t;
	    }
	for (int i = k + 1; i < m; ++i) {
	    lc_t f = A[i * n + k] / A[k * n + k];
	    if (f == 0.0L)
		continue;
	    for (int j = k; j < n; ++j)
		A[i * n + j] -= f * A[k * n + j];
	}
    }
    return count;
}
