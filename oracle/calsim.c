/*
 * calsim.c: physical E-network VNA model; see calsim.h.
 */
#include <complex.h>
#include <errno.h>
#include <math.h>
#include <stdio.h>
#include <stdlib.h>
#include <string.h>
#include <vnacal.h>
#include <vnadata.h>
#include "vf.h"
#include "calsim.h"

#define F0	1.0e9
#define FSTEP	0.5e9

static bool is_t(vnacal_type_t t)
{
    return t == VNACAL_T8 || t == VNACAL_TE10 || t == VNACAL_T16;
}
static bool is_16(vnacal_type_t t)
{
    return t == VNACAL_T16 || t == VNACAL_U16;
}
static bool is_colsys(vnacal_type_t t)
{
    return t == VNACAL_UE14 || t == VNACAL_E12;
}
static bool has_leak(vnacal_type_t t)
{
    return t == VNACAL_TE10 || t == VNACAL_UE10 || t == VNACAL_UE14 ||
	t == VNACAL_E12 || is_16(t);
}

double cs_xf(const cs_vna *v, double f)
{
    (void)v;
    return (f - F0) / 1.0e9;
}

/*
 * Network coefficients: each term is  base + slope * x  with x the
 * normalised frequency; coefficients are drawn once per (variant, system,
 * matrix, cell) from the counter generator.
 */
typedef struct { cs_c base, slope; } coef_t;

static coef_t coef(const cs_vna *v, int variant, int sys, int which, int i,
	int j, double mag, double smag)
{
    uint64_t stream = 7000 + (uint64_t)variant * 100 + (uint64_t)v->type * 10
	+ (uint64_t)sys;
    uint64_t idx = (uint64_t)which * 64 + (uint64_t)i * 8 + (uint64_t)j;
    coef_t c;
    c.base = mag * vf_cunit(stream, idx);
    c.slope = smag * vf_cunit(stream + 50, idx);
    return c;
}

static void net_eval(const cs_vna *v, int variant, double f, int sys,
	cs_net *n)
{
    const int P = v->P;
    const double x = cs_xf(v, f);
    const bool full = is_16(v->type);
    const bool leak = has_leak(v->type) && variant >= 1;
    /* variant 3: (almost) ideal instrument: directivity, match and leakage
       at the 1e-4 level, so that a match reads close to zero */
    double em_mag = variant == 0 ? 0.05 : variant == 1 ? 0.35 :
	variant == 3 ? 1e-4 : 0.2;
    double el_mag = variant == 0 ? 0.02 : variant == 1 ? 0.15 :
	variant == 3 ? 1e-4 : 0.1;
    double off_mag = variant == 2 ? 0.08 : variant == 3 ? 1e-4 : 0.04;
    double lk_mag = variant == 2 ? 0.05 : variant == 3 ? 1e-4 : 0.02;

    memset(n, 0, sizeof(*n));
    if (variant == 4) {
	/* the ideal instrument: what is measured is the S matrix itself */
	for (int r = 0; r < v->rows; ++r)
	    n->Er[r * P + r] = 1.0;
	for (int c = 0; c < v->cols; ++c)
	    n->Et[c * P + c] = 1.0;
	return;
    }
    for (int r = 0; r < v->rows; ++r) {
	for (int c = 0; c < v->cols; ++c) {
	    coef_t k = coef(v, variant, sys, 0, r, c,
		    r == c ? el_mag : lk_mag, variant == 3 ? 1e-5 : 0.01);
	    if (r == c || leak)
		n->El[r * P + c] = k.base + k.slope * x;
	}
	for (int p = 0; p < P; ++p) {
	    if (r == p) {
		coef_t k = coef(v, variant, sys, 1, r, p, 0.3, 0.05);
		n->Er[r * P + p] = (0.9 - 0.1 * r) * cexp(I * (0.3 + 0.4 * r +
			    0.2 * sys)) + k.base * (variant ? 1.0 : 0.2)
		    + k.slope * x;
	    } else if (full) {
		coef_t k = coef(v, variant, sys, 1, r, p, off_mag, 0.01);
		n->Er[r * P + p] = k.base + k.slope * x;
	    }
	}
    }
    for (int p = 0; p < P; ++p) {
	for (int c = 0; c < v->cols; ++c) {
	    if (p == c) {
		coef_t k = coef(v, variant, sys, 2, p, c, 0.3, 0.05);
		n->Et[p * P + c] = (0.95 - 0.05 * c) * cexp(-I * (0.2 +
			    0.3 * c + 0.1 * sys)) + k.base *
		    (variant ? 1.0 : 0.2) + k.slope * x;
	    } else if (full) {
		coef_t k = coef(v, variant, sys, 2, p, c, off_mag, 0.01);
		n->Et[p * P + c] = k.base + k.slope * x;
	    }
	}
	for (int q = 0; q < P; ++q) {
	    if (p == q) {
		coef_t k = coef(v, variant, sys, 3, p, q, em_mag,
			variant == 3 ? 1e-5 : 0.02);
		n->Em[p * P + q] = k.base + k.slope * x;
	    } else if (full) {
		coef_t k = coef(v, variant, sys, 3, p, q, off_mag, 0.01);
		n->Em[p * P + q] = k.base + k.slope * x;
	    }
	}
    }
}

void cs_make_vna(cs_vna *v, vnacal_type_t type, int rows, int cols, int nf,
	int variant)
{
    double fv[CS_MAXF];
    for (int k = 0; k < nf; ++k)
	fv[k] = F0 + FSTEP * k;
    cs_make_vna_f(v, type, rows, cols, nf, fv, variant);
}

void cs_make_vna_f(cs_vna *v, vnacal_type_t type, int rows, int cols, int nf,
	const double *fvec, int variant)
{
    memset(v, 0, sizeof(*v));
    v->type = type;
    v->rows = rows;
    v->cols = cols;
    v->P = rows > cols ? rows : cols;
    v->nsys = is_colsys(type) ? cols : 1;
    v->nf = nf;
    v->variant = variant;
    for (int k = 0; k < nf; ++k)
	v->f[k] = fvec[k];
    for (int p = 0; p < v->P; ++p)
	v->gamma_unused[p] = 0.3 - 0.2 * I * (p + 1) + 0.1 * p;
    for (int k = 0; k < nf; ++k)
	for (int s = 0; s < v->nsys; ++s)
	    net_eval(v, variant, v->f[k], s, &v->net[k][s]);
}

void cs_net_at(const cs_vna *v, double f, int sys, cs_net *n)
{
    net_eval(v, v->variant, f, sys, n);
}

/* measurement in long double from explicit matrices */
static int measure_l(int P, int rows, int cols, int nsys,
	const lc_t *El, const lc_t *Er, const lc_t *Et, const lc_t *Em,
	int netstride, const lc_t *S, lc_t *M)
{
    lc_t A[CS_MAXP * CS_MAXP], rhs[CS_MAXP], b[CS_MAXP];

    for (int c = 0; c < cols; ++c) {
	int off = (nsys > 1 ? c : 0) * netstride;
	const lc_t *el = El + off, *er = Er + off, *et = Et + off,
	      *em = Em + off;
	long double pr;

	for (int p = 0; p < P; ++p) {
	    for (int q = 0; q < P; ++q) {
		lc_t s = (p == q) ? 1.0L : 0.0L;
		for (int k = 0; k < P; ++k)
		    s -= em[p * P + k] * S[k * P + q];
		A[p * P + q] = s;
	    }
	    rhs[p] = et[p * P + c];
	}
	if (lin_solve(P, 1, A, rhs, 1e-15L, &pr) != P)
	    return -1;
	for (int p = 0; p < P; ++p) {
	    lc_t s = 0;
	    for (int q = 0; q < P; ++q)
		s += S[p * P + q] * rhs[q];
	    b[p] = s;
	}
	for (int r = 0; r < rows; ++r) {
	    lc_t s = el[r * P + c];
	    for (int p = 0; p < P; ++p)
		s += er[r * P + p] * b[p];
	    M[r * cols + c] = s;
	}
    }
    return 0;
}

#define NS (CS_MAXP * CS_MAXP)

static void nets_to_l(const cs_vna *v, const cs_net *nets, lc_t *El,
	lc_t *Er, lc_t *Et, lc_t *Em)
{
    for (int s = 0; s < v->nsys; ++s)
	for (int i = 0; i < NS; ++i) {
	    El[s * NS + i] = nets[s].El[i];
	    Er[s * NS + i] = nets[s].Er[i];
	    Et[s * NS + i] = nets[s].Et[i];
	    Em[s * NS + i] = nets[s].Em[i];
	}
}

static int measure_nets(const cs_vna *v, const cs_net *nets, const cs_c *S,
	cs_c *M)
{
    lc_t El[CS_MAXP * NS], Er[CS_MAXP * NS], Et[CS_MAXP * NS],
	 Em[CS_MAXP * NS];
    lc_t Sl[NS], Ml[NS];
    const int P = v->P;

    nets_to_l(v, nets, El, Er, Et, Em);
    /* repack from stride CS_MAXP*CS_MAXP cell layout [i*P+j] */
    for (int i = 0; i < P * P; ++i)
	Sl[i] = S[i];
    if (measure_l(P, v->rows, v->cols, v->nsys, El, Er, Et, Em, NS, Sl,
		Ml) != 0)
	return -1;
    for (int i = 0; i < v->rows * v->cols; ++i)
	M[i] = (cs_c)Ml[i];
    return 0;
}

double cs_receiver_gain;

int cs_measure(const cs_vna *v, int findex, const cs_c *S, cs_c *M)
{
    int rc = measure_nets(v, v->net[findex], S, M);
    /* every reading scaled by the gain of the receivers: an instrument
       the error model represents as well as the unscaled one */
    if (rc == 0 && cs_receiver_gain != 0.0)
	for (int i = 0; i < v->rows * v->cols; ++i)
	    M[i] *= cs_receiver_gain;
    return rc;
}

cs_c cs_param_value(const cs_vna *v, const cs_param *p, double f)
{
    if (p->kind == CSP_PREDEF) {
	switch (p->predef) {
	case VNACAL_MATCH: return 0.0;
	case VNACAL_OPEN:  return 1.0;
	case VNACAL_SHORT: return -1.0;
	}
    }
    double x = cs_xf(v, f);
    cs_c val = (p->c0 + p->c1 * x) / (1.0 + p->c2 * x);
    if (p->warp != 0.0)
	val *= cexp(I * p->warp * x);
    return val;
}

void cs_std_S(const cs_scenario *sc, const cs_std *st, int findex, cs_c *S)
{
    const cs_vna *v = &sc->vna;
    const int P = v->P;
    bool used[CS_MAXP] = { false };

    for (int i = 0; i < P * P; ++i)
	S[i] = 0.0;
    for (int i = 0; i < st->np; ++i)
	used[st->port[i] - 1] = true;
    for (int i = 0; i < st->np; ++i) {
	for (int j = 0; j < st->np; ++j) {
	    int cell = i * st->np + j;
	    cs_c val = st->sp[cell] >= 0 ?
		cs_param_value(v, &sc->param[st->sp[cell]], v->f[findex]) :
		st->sv[cell];
	    S[(st->port[i] - 1) * P + (st->port[j] - 1)] = val;
	}
    }
    for (int p = 0; p < P; ++p)
	if (!used[p])
	    S[p * P + p] = v->gamma_unused[p];
}

/* ------------------------------------------------------------------ */

double cs_vector_wiggle;
int cs_vector_on_cal;

int cs_param_fillers;
int cs_real_scalars;
int cs_ident_priors;
cs_c cs_system_z0;
double cs_solve_tolerance;
int cs_apply_z0_mismatch;
cs_c cs_apply_z0_expected, cs_apply_z0_got;

int cs_make_params(vnacal_t *vcp, cs_scenario *sc)
{
    const cs_vna *v = &sc->vna;
    double fmin = v->f[0], fmax = v->f[v->nf - 1];

    /* unrelated parameters first: the scenario's handles start higher */
    for (int i = 0; i < cs_param_fillers; ++i)
	if (vnacal_make_scalar_parameter(vcp, 0.04 * (i + 1) + 0.2 * I) < 0)
	    return -1;

    for (int k = 0; k < sc->nparam; ++k) {
	cs_param *p = &sc->param[k];
	p->handle = -1;
	switch (p->kind) {
	case CSP_PREDEF:
	    p->handle = p->predef;
	    break;
	case CSP_SCALAR:
	    p->handle = vnacal_make_scalar_parameter(vcp, p->c0);
	    break;
	case CSP_VECTOR:
	case CSP_UNKNOWN: {
	    int n = p->npts > 0 ? p->npts : 1;
	    double fv[32];
	    cs_c gv[32];
	    double lo = (p->lo > 0 ? p->lo : 1.0) * fmin;
	    double hi = (p->hi > 0 ? p->hi : 1.0) * fmax;
	    cs_c scale = p->kind == CSP_UNKNOWN ? p->guess_scale : 1.0;
	    int h;
	    if (n > 32) n = 32;
	    if (cs_vector_on_cal == 1 && p->kind == CSP_VECTOR) {
		/* a grid that has the first calibration frequency as an
		   interior point and the others between its points */
		n = 0;
		fv[n++] = 0.8 * fmin;
		fv[n++] = fmin;
		for (int i = 0; i + 1 < v->nf; ++i)
		    fv[n++] = 0.5 * (v->f[i] + v->f[i + 1]);
		fv[n++] = 1.1 * fmax;
		fv[n++] = 1.3 * fmax;
		fv[n++] = 1.6 * fmax;
	    }
	    if (cs_vector_on_cal == 2 && p->kind == CSP_VECTOR) {
		/* as many points as the calibration has and the same two
		   ends, the points between off the calibration's */
		n = v->nf;
		for (int i = 0; i < n; ++i)
		    fv[i] = i == 0 || i == n - 1 ? v->f[i] :
			v->f[i] - 0.35 * (v->f[i] - v->f[i - 1]);
	    }
	    for (int i = 0; i < n; ++i) {
		if (!(cs_vector_on_cal && p->kind == CSP_VECTOR))
		    fv[i] = n == 1 ? lo : lo + (hi - lo) * i / (n - 1);
		gv[i] = cs_param_value(v, p, fv[i]) * scale;
		/* tabulated data that no interpolation window reproduces:
		   what libvna makes of it depends on the window it picks */
		if (cs_vector_wiggle != 0.0 && p->kind == CSP_VECTOR)
		    gv[i] += cs_vector_wiggle *
			vf_cunit(7300 + (uint64_t)k, (uint64_t)i);
	    }
	    if (p->kind == CSP_UNKNOWN && p->npts <= 1)
		h = vnacal_make_scalar_parameter(vcp, gv[0]);
	    else
		h = vnacal_make_vector_parameter(vcp, fv, n, gv);
	    if (h < 0)
		return -1;
	    if (p->kind == CSP_UNKNOWN) {
		p->handle = vnacal_make_unknown_parameter(vcp, h);
		(void)vnacal_delete_parameter(vcp, h);
	    } else {
		p->handle = h;
	    }
	    break;
	}
	case CSP_CORRELATED: {
	    double sig = p->sigma;
	    p->handle = vnacal_make_correlated_parameter(vcp,
		    sc->param[p->other].handle, NULL, 1, &sig);
	    break;
	}
	}
	if (p->handle < 0)
	    return -1;
    }
    return 0;
}

void cs_delete_params(vnacal_t *vcp, cs_scenario *sc)
{
    for (int k = sc->nparam - 1; k >= 0; --k) {
	cs_param *p = &sc->param[k];
	if (p->kind != CSP_PREDEF && p->handle >= 0)
	    (void)vnacal_delete_parameter(vcp, p->handle);
	p->handle = -1;
    }
}

static int handle_of(const cs_scenario *sc, const cs_std *st, int cell)
{
    if (st->sp[cell] >= 0)
	return sc->param[st->sp[cell]].handle;
    return st->sv[cell] == 1.0 ? VNACAL_ONE : VNACAL_ZERO;
}

/* 'a' matrix families for the a/b forms */
static cs_c a_entry(int variant, int n, int i, int j, int findex)
{
    cs_c d = (i == j) ? 1.0 : 0.0;
    switch (variant) {
    case 0:	/* mild */
	return d * (1.0 + 0.1 * i) + 0.15 * vf_cunit(9100 + (uint64_t)n,
		(uint64_t)(i * 8 + j + 64 * findex));
    case 1:	/* strong, complex scaled */
	return (d * 2.0 + 0.4 * vf_cunit(9200 + (uint64_t)n,
		    (uint64_t)(i * 8 + j + 64 * findex))) * cexp(0.7 * I);
    default:	/* tiny amplitude */
	return (d + 0.2 * vf_cunit(9300 + (uint64_t)n,
		    (uint64_t)(i * 8 + j + 64 * findex))) * 1e-3;
    }
}

/*
 * present: build pointer matrices for a sub-block of M (given rows/cols)
 * in m or a/b form.  Storage comes from the caller's arena.
 */
typedef struct {
    cs_c *bptr[NS];
    cs_c *aptr[NS];
    cs_c bval[NS][CS_MAXF];
    cs_c aval[NS][CS_MAXF];
    int b_rows, b_cols, a_rows, a_cols;
} present_t;

static void present(const cs_scenario *sc, int nf, int nr, const int *rsel,
	int nc, const int *csel, cs_c Mf[][NS], present_t *pr)
{
    const cs_vna *v = &sc->vna;
    const bool col = is_colsys(v->type);

    pr->b_rows = nr;
    pr->b_cols = nc;
    pr->a_rows = col ? 1 : nc;
    pr->a_cols = nc;
    for (int i = 0; i < nr * nc; ++i)
	pr->bptr[i] = pr->bval[i];
    for (int i = 0; i < pr->a_rows * nc; ++i)
	pr->aptr[i] = pr->aval[i];
    for (int k = 0; k < nf; ++k) {
	cs_c sub[NS];
	for (int i = 0; i < nr; ++i)
	    for (int j = 0; j < nc; ++j)
		sub[i * nc + j] = Mf[k][rsel[i] * v->cols + csel[j]];
	if (!sc->ab) {
	    for (int i = 0; i < nr * nc; ++i)
		pr->bval[i][k] = sub[i];
	    continue;
	}
	cs_c scl = sc->ab_scale != 0.0 ? sc->ab_scale : 1.0;
	if (col) {
	    for (int j = 0; j < nc; ++j) {
		cs_c a = scl * a_entry(sc->a_variant, nc, j, j, k);
		pr->aval[j][k] = a;
		for (int i = 0; i < nr; ++i)
		    pr->bval[i * nc + j][k] = sub[i * nc + j] * a;
	    }
	} else {
	    cs_c A[NS];
	    for (int i = 0; i < nc; ++i)
		for (int j = 0; j < nc; ++j) {
		    A[i * nc + j] = scl * a_entry(sc->a_variant, nc, i, j, k);
		    pr->aval[i * nc + j][k] = A[i * nc + j];
		}
	    for (int i = 0; i < nr; ++i)
		for (int j = 0; j < nc; ++j) {
		    cs_c s = 0;
		    for (int q = 0; q < nc; ++q)
			s += sub[i * nc + q] * A[q * nc + j];
		    pr->bval[i * nc + j][k] = s;
		}
	}
    }
}

static int int_cmp(const void *a, const void *b)
{
    return *(const int *)a - *(const int *)b;
}

int cs_std_measure(const cs_scenario *sc, int k, cs_c Mf[][NS])
{
    const cs_vna *v = &sc->vna;
    const cs_std *st = &sc->std[k];
    cs_c S[NS];

    for (int f = 0; f < v->nf; ++f) {
	cs_std_S(sc, st, f, S);
	if (cs_measure(v, f, S, Mf[f]) != 0)
	    return -1;
	if (sc->noise != 0.0) {
	    /* keyed by the measurement's identity, frequency value and
	       full-matrix cell: invariant under reordering, re-entry,
	       abbreviation and splitting by frequency */
	    uint64_t fkey = (uint64_t)(v->f[f] / 1.0e6);
	    for (int r = 0; r < v->rows; ++r)
		for (int c = 0; c < v->cols; ++c)
		    Mf[f][r * v->cols + c] += sc->noise *
			vf_cunit(9900 + (uint64_t)st->id,
				fkey * 64 + (uint64_t)(r * 8 + c));
	}
	if (sc->gauss_real != 0 || (sc->displace_id != 0 &&
		    sc->displace_id == st->id)) {
	    uint64_t fkey = (uint64_t)(v->f[f] / 1.0e6);
	    for (int r = 0; r < v->rows; ++r)
		for (int c = 0; c < v->cols; ++c) {
		    cs_c *m = &Mf[f][r * v->cols + c];
		    double sig = sqrt(sc->sigma_nf * sc->sigma_nf +
			    sc->sigma_tr * sc->sigma_tr * creal(*m * conj(*m)));
		    if (sc->sigma_fscale[f] != 0.0)
			sig *= sc->sigma_fscale[f];
		    if (sc->gauss_real != 0) {
			uint64_t stream = 20000 + (uint64_t)sc->gauss_real *
			    64 + (uint64_t)st->id;
			uint64_t idx = fkey * 64 + (uint64_t)(r * 8 + c);
			*m += sig * M_SQRT1_2 * (vf_gauss(stream, 2 * idx) +
				I * vf_gauss(stream, 2 * idx + 1));
		    }
		    if (sc->displace_id != 0 && sc->displace_id == st->id &&
			    (sc->displace_findex1 == 0 ||
			     sc->displace_findex1 == f + 1))
			*m += sc->displace_sigmas * sig *
			    (0.6 + 0.8 * I) * ((r + c) & 1 ? -1.0 : 1.0);
		}
	}
    }
    return 0;
}

int cs_add_std(vnacal_new_t *vnp, const cs_scenario *sc, int k)
{
    const cs_vna *v = &sc->vna;
    const cs_std *st = &sc->std[k];
    cs_c Mf[CS_MAXF][NS];
    int rsel[CS_MAXP], csel[CS_MAXP], nr, nc;
    int sorted[CS_MAXP];
    static present_t pr;	/* large; single-threaded */

    if (cs_std_measure(sc, k, Mf) != 0) {
	errno = ERANGE;
	return -2;
    }
    memcpy(sorted, st->port, sizeof(int) * (size_t)st->np);
    qsort(sorted, (size_t)st->np, sizeof(int), int_cmp);
    if (st->abbrev_rows) {
	nr = st->np;
	for (int i = 0; i < nr; ++i) rsel[i] = sorted[i] - 1;
    } else {
	nr = v->rows;
	for (int i = 0; i < nr; ++i) rsel[i] = i;
    }
    if (st->abbrev_cols) {
	nc = st->np;
	for (int i = 0; i < nc; ++i) csel[i] = sorted[i] - 1;
    } else {
	nc = v->cols;
	for (int i = 0; i < nc; ++i) csel[i] = i;
    }
    present(sc, v->nf, nr, rsel, nc, csel, Mf, &pr);

    int h[NS];
    for (int i = 0; i < st->np * st->np; ++i)
	h[i] = handle_of(sc, st, i);
#define AB pr.aptr, pr.a_rows, pr.a_cols, pr.bptr, pr.b_rows, pr.b_cols
#define MM pr.bptr, pr.b_rows, pr.b_cols
    switch (st->entry) {
    case CSE_SINGLE:
	return sc->ab ?
	    vnacal_new_add_single_reflect(vnp, AB, h[0], st->port[0]) :
	    vnacal_new_add_single_reflect_m(vnp, MM, h[0], st->port[0]);
    case CSE_DOUBLE:
	return sc->ab ?
	    vnacal_new_add_double_reflect(vnp, AB, h[0], h[3], st->port[0],
		    st->port[1]) :
	    vnacal_new_add_double_reflect_m(vnp, MM, h[0], h[3], st->port[0],
		    st->port[1]);
    case CSE_THROUGH:
	return sc->ab ?
	    vnacal_new_add_through(vnp, AB, st->port[0], st->port[1]) :
	    vnacal_new_add_through_m(vnp, MM, st->port[0], st->port[1]);
    case CSE_LINE:
	return sc->ab ?
	    vnacal_new_add_line(vnp, AB, h, st->port[0], st->port[1]) :
	    vnacal_new_add_line_m(vnp, MM, h, st->port[0], st->port[1]);
    case CSE_MAPPED:
    default:
	return sc->ab ?
	    vnacal_new_add_mapped_matrix(vnp, AB, h, st->np, st->np,
		    st->null_map ? NULL : st->port) :
	    vnacal_new_add_mapped_matrix_m(vnp, MM, h, st->np, st->np,
		    st->null_map ? NULL : st->port);
    }
#undef AB
#undef MM
}

vnacal_new_t *cs_build(vnacal_t *vcp, cs_scenario *sc)
{
    const cs_vna *v = &sc->vna;
    vnacal_new_t *vnp = vnacal_new_alloc(vcp, v->type, v->rows, v->cols,
	    v->nf);

    if (vnp == NULL)
	return NULL;
    if (vnacal_new_set_frequency_vector(vnp, v->f) == -1) {
	vnacal_new_free(vnp);
	return NULL;
    }
    if (cs_system_z0 != 0.0 && vnacal_new_set_z0(vnp, cs_system_z0) == -1) {
	vnacal_new_free(vnp);
	return NULL;
    }
    if (cs_solve_tolerance != 0.0 &&
	    (vnacal_new_set_p_tolerance(vnp, cs_solve_tolerance) == -1 ||
	     vnacal_new_set_et_tolerance(vnp, cs_solve_tolerance) == -1)) {
	vnacal_new_free(vnp);
	return NULL;
    }
    for (int k = 0; k < sc->nstd; ++k) {
	if (cs_add_std(vnp, sc, k) != 0) {
	    int e = errno;
	    vnacal_new_free(vnp);
	    errno = e;
	    return NULL;
	}
    }
    return vnp;
}

bool cs_apply_ok(const cs_vna *v)
{
    return v->rows == v->cols || v->P == 2;
}

void cs_dut(const cs_vna *v, int k, int findex, cs_c *S)
{
    const int P = v->P;
    double x = cs_xf(v, v->f[findex]);

    for (int i = 0; i < P; ++i) {
	for (int j = 0; j < P; ++j) {
	    cs_c a = vf_cunit(9500 + (uint64_t)k, (uint64_t)(i * 8 + j));
	    cs_c b = vf_cunit(9600 + (uint64_t)k, (uint64_t)(i * 8 + j));
	    cs_c val;
	    switch (k) {
	    case 0:	/* reciprocal, lossy */
		if (j < i) {
		    a = vf_cunit(9500, (uint64_t)(j * 8 + i));
		    b = vf_cunit(9600, (uint64_t)(j * 8 + i));
		}
		val = 0.45 * a + 0.1 * b * x;
		break;
	    case 1:	/* non-reciprocal */
		val = 0.5 * a + 0.1 * b * x;
		if (j > i)
		    val *= 0.2;
		break;
	    default:	/* strongly mismatched */
		val = (i == j ? 0.8 : 0.3) * a + 0.05 * b * x;
		break;
	    }
	    S[i * P + j] = val;
	}
    }
}

int cs_apply(vnacal_t *vcp, int ci, const cs_scenario *sc,
	cs_c Sdut[][CS_MAXP * CS_MAXP], cs_c Sout[][CS_MAXP * CS_MAXP])
{
    const cs_vna *v = &sc->vna;
    const int P = v->P;
    cs_c Mf[CS_MAXF][NS];
    static present_t pr;
    int sel[CS_MAXP];
    int rc;

    for (int f = 0; f < v->nf; ++f) {
	cs_c M[NS];
	if (cs_measure(v, f, Sdut[f], M) != 0)
	    return -2;
	if (v->rows == v->cols) {
	    memcpy(Mf[f], M, sizeof(cs_c) * (size_t)(P * P));
	} else {
	    /* 1x2 or 2x1: second row/column from the reversed DUT */
	    cs_c Sr[NS], Mr[NS];
	    Sr[0] = Sdut[f][3]; Sr[1] = Sdut[f][2];
	    Sr[2] = Sdut[f][1]; Sr[3] = Sdut[f][0];
	    if (cs_measure(v, f, Sr, Mr) != 0)
		return -2;
	    if (v->rows == 1) {		/* 1x2: M = [m11 m12] */
		Mf[f][0] = M[0];  Mf[f][1] = M[1];
		Mf[f][2] = Mr[1]; Mf[f][3] = Mr[0];
	    } else {			/* 2x1: M = [m11; m21] */
		Mf[f][0] = M[0];  Mf[f][1] = Mr[1];
		Mf[f][2] = M[1];  Mf[f][3] = Mr[0];
	    }
	}
    }
    for (int i = 0; i < P; ++i)
	sel[i] = i;
    /* present() indexes Mf with v->cols as the stride: use a square view */
    static cs_scenario view;
    view = *sc;
    view.vna.rows = view.vna.cols = P;
    present(&view, v->nf, P, sel, P, sel, Mf, &pr);

    vnadata_t *vdp = vnadata_alloc(NULL, NULL);
    if (vdp == NULL)
	return -3;
    if (sc->ab)
	rc = vnacal_apply(vcp, ci, v->f, v->nf, pr.aptr, pr.a_rows,
		pr.a_cols, pr.bptr, pr.b_rows, pr.b_cols, vdp);
    else
	rc = vnacal_apply_m(vcp, ci, v->f, v->nf, pr.bptr, pr.b_rows,
		pr.b_cols, vdp);
    if (rc == 0) {
	if (vnadata_get_rows(vdp) != P || vnadata_get_columns(vdp) != P ||
		vnadata_get_frequencies(vdp) != v->nf ||
		vnadata_get_type(vdp) != VPT_S) {
	    rc = -4;
	} else {
	    for (int f = 0; f < v->nf; ++f) {
		if (vnadata_get_frequency(vdp, f) != v->f[f])
		    rc = -4;
		for (int i = 0; i < P; ++i)
		    for (int j = 0; j < P; ++j)
			Sout[f][i * P + j] = vnadata_get_cell(vdp, f, i, j);
	    }
	    /* the S-parameters are relative to the system impedance of the
	       calibration: the result carries it */
	    cs_apply_z0_expected = vnacal_get_z0(vcp, ci);
	    cs_apply_z0_mismatch = 0;
	    for (int i = 0; i < P; ++i) {
		cs_c z = vnadata_get_z0(vdp, i);
		if (z != cs_apply_z0_expected) {
		    cs_apply_z0_mismatch = 1;
		    cs_apply_z0_got = z;
		}
	    }
	}
    }
    vnadata_free(vdp);
    return rc;
}

double cs_apply_error(vnacal_t *vcp, int ci, const cs_scenario *sc,
	cs_c Sdut[][CS_MAXP * CS_MAXP], int *rc)
{
    const cs_vna *v = &sc->vna;
    const int P = v->P;
    cs_c Sout[CS_MAXF][NS];
    double worst = 0.0;

    *rc = cs_apply(vcp, ci, sc, Sdut, Sout);
    if (*rc != 0)
	return HUGE_VAL;
    for (int f = 0; f < v->nf; ++f)
	for (int i = 0; i < P * P; ++i) {
	    double e = cabs(Sout[f][i] - Sdut[f][i]);
	    if (!(e <= worst))
		worst = e;
	}
    return worst;
}

/* ------------------------------------------------------------------ */
/* identifiability                                                     */

typedef struct { int which, i, j; } par_t;	/* which: 0 El 1 Er 2 Et 3 Em */

static int list_params(const cs_vna *v, int sys, par_t *out)
{
    const int P = v->P;
    const bool full = is_16(v->type);
    const bool leak = has_leak(v->type);
    const bool col = is_colsys(v->type);
    int n = 0;

    for (int r = 0; r < v->rows; ++r)
	for (int c = 0; c < v->cols; ++c) {
	    if (col && c != sys) continue;
	    if (r == c || leak)
		out[n++] = (par_t){ 0, r, c };
	}
    for (int r = 0; r < v->rows; ++r)
	for (int p = 0; p < P; ++p)
	    if (r == p || full)
		out[n++] = (par_t){ 1, r, p };
    for (int p = 0; p < P; ++p)
	for (int c = 0; c < v->cols; ++c) {
	    if (col && c != sys) continue;
	    if (p == c || full)
		out[n++] = (par_t){ 2, p, c };
	}
    for (int p = 0; p < P; ++p)
	for (int q = 0; q < P; ++q)
	    if (p == q || full)
		out[n++] = (par_t){ 3, p, q };
    return n;
}

/* connectivity of standard ports: transitive closure over non-zero cells */
static void std_connect(const cs_scenario *sc, const cs_std *st, bool *conn)
{
    const int P = sc->vna.P;
    int set[CS_MAXP];

    for (int p = 0; p < P; ++p)
	set[p] = p;
    for (int i = 0; i < st->np; ++i)
	for (int j = 0; j < st->np; ++j) {
	    int cell = i * st->np + j;
	    bool zero;
	    if (i == j) continue;
	    if (st->sp[cell] >= 0) {
		const cs_param *p = &sc->param[st->sp[cell]];
		zero = p->kind == CSP_PREDEF && p->predef == VNACAL_ZERO;
	    } else {
		zero = st->sv[cell] == 0.0;
	    }
	    if (!zero) {
		int a = set[st->port[i] - 1], b = set[st->port[j] - 1];
		int lo = a < b ? a : b;
		for (int q = 0; q < P; ++q)
		    if (set[q] == a || set[q] == b)
			set[q] = lo;
	    }
	}
    /*
     * Ports the standard leaves open may be connected to anything among
     * themselves (vnacal_new(3) only requires that they have no through
     * signal to or from the ports under test): a cell between two unused
     * ports is therefore neither an equation nor a leakage observation.
     */
    {
	bool used[CS_MAXP] = { false };
	for (int i = 0; i < st->np; ++i)
	    used[st->port[i] - 1] = true;
	for (int p = 0; p < P; ++p)
	    for (int q = 0; q < P; ++q)
		conn[p * P + q] = (p == q) || set[p] == set[q] ||
		    (!used[p] && !used[q]);
    }
}

static int unknowns_per_system(const cs_vna *v)
{
    int r = v->rows, c = v->cols;
    switch (v->type) {
    case VNACAL_T8: case VNACAL_U8: case VNACAL_TE10: case VNACAL_UE10:
	return 2 * r + 2 * c - 1;
    case VNACAL_T16:
	return 2 * r * c + 2 * c * c - 1;
    case VNACAL_U16:
	return 2 * r * c + 2 * r * r - 1;
    default:	/* UE14, E12: per column */
	return 2 * r + 1;
    }
}

/* S of a standard with parameter `which' displaced by dv (long double) */
static void std_S_l(const cs_scenario *sc, const cs_std *st, int findex,
	int which, lc_t dv, lc_t *S)
{
    const cs_vna *v = &sc->vna;
    const int P = v->P;
    bool used[CS_MAXP] = { false };

    for (int i = 0; i < P * P; ++i)
	S[i] = 0.0L;
    for (int i = 0; i < st->np; ++i)
	used[st->port[i] - 1] = true;
    for (int i = 0; i < st->np; ++i)
	for (int j = 0; j < st->np; ++j) {
	    int cell = i * st->np + j;
	    lc_t val = st->sp[cell] >= 0 ?
		(lc_t)cs_param_value(v, &sc->param[st->sp[cell]],
			v->f[findex]) : (lc_t)st->sv[cell];
	    if (st->sp[cell] >= 0 && st->sp[cell] == which)
		val += dv;
	    S[(st->port[i] - 1) * P + (st->port[j] - 1)] = val;
	}
    for (int p = 0; p < P; ++p)
	if (!used[p])
	    S[p * P + p] = v->gamma_unused[p];
}

int cs_last_eq_total, cs_last_unknown_total;

int cs_identifiable(const cs_scenario *sc, unsigned mask,
	long double *margin, int *equations, int *unknowns)
{
    const cs_vna *v = &sc->vna;
    const int P = v->P;
    const bool col = is_colsys(v->type);
    const bool full = is_16(v->type);
    const bool leak = has_leak(v->type) && !full;
    int result = 1;
    int min_eq = 1 << 30;
    par_t par[CS_MAXP][4 * NS];
    int np[CS_MAXP], coloff[CS_MAXP];
    int ncols = 0, need = 0;
    int upar[CS_MAXPARAM], nu = 0;
    lc_t El[CS_MAXP * NS], Er[CS_MAXP * NS], Et[CS_MAXP * NS],
	 Em[CS_MAXP * NS];

    *unknowns = unknowns_per_system(v);
    for (int sys = 0; sys < v->nsys; ++sys) {
	np[sys] = list_params(v, sys, par[sys]);
	coloff[sys] = ncols;
	ncols += np[sys];
	need += np[sys] - 1;		/* one gauge freedom per system */
    }
    /* unknown standard parameters used by the selected standards.  A
       correlated parameter is an unknown too; its tie to `other' is a
       prior, not a measurement, and is not counted here. */
    for (int k = 0; k < sc->nstd; ++k) {
	if (!(mask & (1u << k)))
	    continue;
	for (int c = 0; c < sc->std[k].np * sc->std[k].np; ++c) {
	    int q = sc->std[k].sp[c];
	    if (q < 0) continue;
	    if (sc->param[q].kind != CSP_UNKNOWN &&
		    sc->param[q].kind != CSP_CORRELATED)
		continue;
	    bool seen = false;
	    for (int i = 0; i < nu; ++i)
		if (upar[i] == q) seen = true;
	    if (!seen)
		upar[nu++] = q;
	}
    }
    /* with cs_ident_priors the ties of correlated parameters are counted
       as equations (libvna adds one row per correlated parameter): unknown
       parameters that are only referred to as `other' join the unknowns */
    int nu_measured = nu;
    if (cs_ident_priors) {
	for (int i = 0; i < nu_measured; ++i) {
	    int o;
	    if (sc->param[upar[i]].kind != CSP_CORRELATED)
		continue;
	    o = sc->param[upar[i]].other;
	    if (o < 0 || (sc->param[o].kind != CSP_UNKNOWN &&
			sc->param[o].kind != CSP_CORRELATED))
		continue;
	    bool seen = false;
	    for (int j = 0; j < nu; ++j)
		if (upar[j] == o) seen = true;
	    if (!seen)
		upar[nu++] = o;
	}
    }
    int ucol = ncols;
    ncols += nu;
    need += nu;
    *unknowns += nu;

    int maxrows = CS_MAXSTD * NS + CS_MAXPARAM;
    lc_t *J = calloc((size_t)maxrows * (size_t)ncols, sizeof(lc_t));
    int nrows = 0;
    int eqs_sys[CS_MAXP] = { 0 };
    bool leak_seen[NS] = { false };

    nets_to_l(v, v->net[0], El, Er, Et, Em);
    for (int k = 0; k < sc->nstd; ++k) {
	const cs_std *st = &sc->std[k];
	bool conn[NS], inset[CS_MAXP] = { false };
	bool rgiven[CS_MAXP], cgiven[CS_MAXP];
	lc_t S[NS];
	int usable[NS], nus = 0;

	if (!(mask & (1u << k)))
	    continue;
	std_connect(sc, st, conn);
	for (int i = 0; i < st->np; ++i)
	    inset[st->port[i] - 1] = true;
	for (int r = 0; r < v->rows; ++r)
	    rgiven[r] = !st->abbrev_rows || inset[r];
	for (int c = 0; c < v->cols; ++c)
	    cgiven[c] = !st->abbrev_cols || inset[c];
	std_S_l(sc, st, 0, -1, 0, S);
	for (int r = 0; r < v->rows; ++r)
	    for (int c = 0; c < v->cols; ++c) {
		int sys = col ? c : 0;
		if (!rgiven[r] || !cgiven[c]) continue;
		if (full) {
		    /* all cells usable if the standard is complete */
		    if (st->np == P) {
			usable[nus++] = r * v->cols + c;
			++eqs_sys[sys];
		    }
		    continue;
		}
		if (inset[r] && inset[c] && conn[r * P + c]) {
		    usable[nus++] = r * v->cols + c;
		    ++eqs_sys[sys];
		} else if (r != c && !conn[r * P + c] && leak) {
		    usable[nus++] = r * v->cols + c;
		    leak_seen[r * v->cols + c] = true;
		}
	    }
	const long double h = 1e-9L;
	/* derivatives wrt error-network parameters */
	for (int sys = 0; sys < v->nsys; ++sys) {
	    for (int j = 0; j < np[sys]; ++j) {
		const par_t *pp = &par[sys][j];
		lc_t *arr = pp->which == 0 ? El : pp->which == 1 ? Er :
		    pp->which == 2 ? Et : Em;
		int off = (v->nsys > 1 ? sys : 0) * NS + pp->i * P + pp->j;
		lc_t save = arr[off], Mp[NS], Mm[NS];
		arr[off] = save + h;
		int e1 = measure_l(P, v->rows, v->cols, v->nsys, El, Er, Et,
			Em, NS, S, Mp);
		arr[off] = save - h;
		int e2 = measure_l(P, v->rows, v->cols, v->nsys, El, Er, Et,
			Em, NS, S, Mm);
		arr[off] = save;
		for (int u = 0; u < nus; ++u) {
		    int c = usable[u] % v->cols;
		    if (col && c != sys)
			continue;	/* other system's network */
		    lc_t d = (e1 || e2) ? 0 :
			(Mp[usable[u]] - Mm[usable[u]]) / (2 * h);
		    J[(size_t)(nrows + u) * (size_t)ncols +
			(size_t)(coloff[sys] + j)] = d;
		}
	    }
	}
	/* derivatives wrt unknown standard parameters */
	for (int q = 0; q < nu; ++q) {
	    lc_t Sp[NS], Sm[NS], Mp[NS], Mm[NS];
	    bool uses = false;
	    for (int c = 0; c < st->np * st->np; ++c)
		if (st->sp[c] == upar[q]) uses = true;
	    if (!uses)
		continue;
	    std_S_l(sc, st, 0, upar[q], h, Sp);
	    std_S_l(sc, st, 0, upar[q], -h, Sm);
	    int e1 = measure_l(P, v->rows, v->cols, v->nsys, El, Er, Et, Em,
		    NS, Sp, Mp);
	    int e2 = measure_l(P, v->rows, v->cols, v->nsys, El, Er, Et, Em,
		    NS, Sm, Mm);
	    for (int u = 0; u < nus; ++u) {
		lc_t d = (e1 || e2) ? 0 :
		    (Mp[usable[u]] - Mm[usable[u]]) / (2 * h);
		J[(size_t)(nrows + u) * (size_t)ncols + (size_t)(ucol + q)] =
		    d;
	    }
	}
	nrows += nus;
    }
    if (cs_ident_priors) {
	/* one row per correlated parameter: c - other = 0, in units of a
	   measurement (the row is as good as a reading of the difference) */
	for (int i = 0; i < nu; ++i) {
	    int o;
	    if (sc->param[upar[i]].kind != CSP_CORRELATED)
		continue;
	    o = sc->param[upar[i]].other;
	    J[(size_t)nrows * (size_t)ncols + (size_t)(ucol + i)] = 1;
	    for (int j = 0; j < nu; ++j)
		if (upar[j] == o)
		    J[(size_t)nrows * (size_t)ncols + (size_t)(ucol + j)] = -1;
	    ++nrows;
	}
    }
    for (int sys = 0; sys < v->nsys; ++sys)
	if (eqs_sys[sys] < min_eq)
	    min_eq = eqs_sys[sys];
    /* every leakage term must be observed on a no-path measurement:
       that is how libvna determines them (vnacal_new(3)) */
    if (leak) {
	for (int r = 0; r < v->rows; ++r)
	    for (int c = 0; c < v->cols; ++c)
		if (r != c && !leak_seen[r * v->cols + c])
		    result = 0;
    }
    long double *piv = calloc((size_t)ncols + 1, sizeof(long double));
    int cnt = nrows > 0 ? lin_pivots(nrows, ncols, J, piv) : 0;
    long double m = 0;
    if (cnt < need || piv[need - 1] < 1e-7L * piv[0]) {
	result = 0;
    } else {
	m = piv[need - 1] / piv[0];
    }
    if (vf_verbose) {
	vf_note("identifiable: params %d (+%d unknown standard parameters) "
		"rows %d min-eqs %d pivots %d first %.3Le need-th(%d) %.3Le "
		"leak-ok %d", ncols - nu, nu, nrows, min_eq, cnt,
		cnt ? piv[0] : 0.0L, need,
		cnt >= need && need > 0 ? piv[need - 1] : 0.0L, result);
    }
    free(piv);
    free(J);
    *equations = min_eq;
    *margin = m;
    cs_last_eq_total = 0;
    for (int sys = 0; sys < v->nsys; ++sys)
	cs_last_eq_total += eqs_sys[sys];
    cs_last_unknown_total = v->nsys * unknowns_per_system(v) + nu;
    return result;
}

/* ------------------------------------------------------------------ */

void cs_describe(const cs_scenario *sc, char *buf, size_t n)
{
    const cs_vna *v = &sc->vna;
    static const char *en[] = { "reflect", "dreflect", "through", "line",
	"mapped" };
    size_t off = 0;

    off += (size_t)snprintf(buf + off, n - off, "%s %dx%d nf=%d %s stds:",
	    vnacal_type_to_name(v->type), v->rows, v->cols, v->nf,
	    sc->ab ? "a/b" : "m");
    for (int k = 0; k < sc->nstd && off + 40 < n; ++k) {
	const cs_std *st = &sc->std[k];
	off += (size_t)snprintf(buf + off, n - off, " %s(", en[st->entry]);
	for (int i = 0; i < st->np && off + 20 < n; ++i)
	    off += (size_t)snprintf(buf + off, n - off, "%s%d", i ? "," : "",
		    st->port[i]);
	off += (size_t)snprintf(buf + off, n - off, ")%s%s%s",
		st->abbrev_rows ? "r" : "", st->abbrev_cols ? "c" : "",
		st->null_map ? "n" : "");
    }
}

/* ------------------------------------------------------------------ */
/* recipes                                                             */

enum { SK_REFLECT, SK_DREFLECT, SK_THROUGH, SK_LINE, SK_DENSE };

static int add_param(cs_scenario *sc, cs_param p)
{
    if (sc->nparam >= CS_MAXPARAM)
	abort();
    p.handle = -1;
    sc->param[sc->nparam] = p;
    return sc->nparam++;
}

static int mk_value_param(cs_scenario *sc, int kv, cs_c c0, cs_c c1, cs_c c2)
{
    cs_param p;
    memset(&p, 0, sizeof(p));
    if (kv == 1) {
	p.kind = CSP_VECTOR;
	p.c0 = c0; p.c1 = c1; p.c2 = c2;
	p.npts = 7; p.lo = 0.9; p.hi = 1.1;
    } else {
	p.kind = CSP_SCALAR;
	p.c0 = cs_real_scalars ? (cs_c)creal(c0) : c0;
    }
    return add_param(sc, p);
}

static int mk_predef(cs_scenario *sc, int which)
{
    cs_param p;
    memset(&p, 0, sizeof(p));
    p.kind = CSP_PREDEF;
    p.predef = which;
    return add_param(sc, p);
}

static void push_std(cs_scenario *sc, int kind, int np, const int *ports,
	const int *sp, const cs_c *sv, int ev, int av, int pv)
{
    const cs_vna *v = &sc->vna;
    cs_std *st;
    bool rows_ok = true, cols_ok = true;

    if (sc->nstd >= CS_MAXSTD)
	abort();
    st = &sc->std[sc->nstd++];
    memset(st, 0, sizeof(*st));
    st->np = np;
    st->id = sc->nstd;
    for (int i = 0; i < np; ++i) {
	int src = pv ? np - 1 - i : i;
	st->port[i] = ports[src];
	for (int j = 0; j < np; ++j) {
	    int srcj = pv ? np - 1 - j : j;
	    st->sp[i * np + j] = sp[src * np + srcj];
	    st->sv[i * np + j] = sv ? sv[src * np + srcj] : 0.0;
	}
    }
    switch (kind) {
    case SK_REFLECT:
	st->entry = ev == 0 ? CSE_SINGLE : CSE_MAPPED;
	break;
    case SK_DREFLECT:
	st->entry = ev == 0 ? CSE_DOUBLE : ev == 1 ? CSE_LINE : CSE_MAPPED;
	break;
    case SK_THROUGH:
	st->entry = ev == 0 ? CSE_THROUGH : ev == 1 ? CSE_LINE : CSE_MAPPED;
	break;
    case SK_LINE:
	st->entry = ev == 2 ? CSE_MAPPED : CSE_LINE;
	break;
    default:
	st->entry = CSE_MAPPED;
	st->null_map = (pv == 0 && ev == 0 && np == v->P);
	break;
    }
    for (int i = 0; i < np; ++i) {
	if (ports[i] > v->rows) rows_ok = false;
	if (ports[i] > v->cols) cols_ok = false;
    }
    if (v->type == VNACAL_U16) rows_ok = false;
    if (v->type == VNACAL_T16) cols_ok = false;
    st->abbrev_rows = (av & 1) && rows_ok;
    st->abbrev_cols = (av & 2) && cols_ok;
}

int cs_recipe(cs_scenario *sc, int recipe, int ev, int av, int pv, int kv)
{
    const cs_vna *v = &sc->vna;
    const int P = v->P;
    const int sq = v->rows < v->cols ? v->rows : v->cols;
    int pm, po, ps;		/* match, open, short parameter indices */
    int l11, l12, l21, l22;

    sc->nparam = 0;
    sc->nstd = 0;
    if (kv == 0) {
	pm = mk_predef(sc, VNACAL_MATCH);
	po = mk_predef(sc, VNACAL_OPEN);
	ps = mk_predef(sc, VNACAL_SHORT);
    } else {
	pm = mk_value_param(sc, kv, 0.02 + 0.01 * I, 0.03, 0.1);
	po = mk_value_param(sc, kv, 0.97 * cexp(-0.1 * I), -0.05 * I, 0.2);
	ps = mk_value_param(sc, kv, -0.96 * cexp(0.08 * I), 0.04 * I, -0.1);
    }
    l11 = mk_value_param(sc, kv, 0.10 + 0.05 * I, 0.02, 0.0);
    l12 = mk_value_param(sc, kv, 0.35 - 0.606 * I, -0.1 * I, 0.15);
    l21 = mk_value_param(sc, kv, 0.33 - 0.58 * I, -0.08 * I, 0.15);
    l22 = mk_value_param(sc, kv, -0.08 + 0.10 * I, 0.01 * I, 0.0);

    if (v->type == VNACAL_T16 || v->type == VNACAL_U16) {
	if (recipe == 2)
	    return -1;
	if ((recipe == 0 && P <= 2)) {
	    if (P == 1) {
		int r[3] = { ps, po, pm };
		for (int k = 0; k < 3; ++k) {
		    int port = 1;
		    push_std(sc, SK_REFLECT, 1, &port, &r[k], NULL, ev, av,
			    pv);
		}
		return 0;
	    }
	    /* P == 2: T, MM, SO, OS, SM, OM */
	    {
		int ports[2] = { 1, 2 };
		int none[4] = { -1, -1, -1, -1 };
		cs_c tv[4] = { 0, 1, 1, 0 };
		int dr[5][2] = { { pm, pm }, { ps, po }, { po, ps },
		    { ps, pm }, { po, pm } };
		push_std(sc, SK_THROUGH, 2, ports, none, tv, ev, av, pv);
		for (int k = 0; k < 5; ++k) {
		    int sp[4] = { dr[k][0], -1, -1, dr[k][1] };
		    push_std(sc, SK_DREFLECT, 2, ports, sp, NULL, ev, av, pv);
		}
		return 0;
	    }
	}
	/* dense full-matrix standards from a pool of 8 scalar values */
	{
	    int pool[8];
	    int nd = P == 1 ? 4 : P == 2 ? 7 : 7;
	    int ports[CS_MAXP];
	    for (int k = 0; k < 8; ++k)
		pool[k] = mk_value_param(sc, kv == 1 ? 1 : 2,
			0.7 * vf_cunit(8800, (uint64_t)k),
			0.05 * vf_cunit(8801, (uint64_t)k), 0.0);
	    for (int i = 0; i < P; ++i)
		ports[i] = i + 1;
	    for (int d = 0; d < nd; ++d) {
		int sp[NS];
		for (int i = 0; i < P; ++i)
		    for (int j = 0; j < P; ++j)
			sp[i * P + j] = pool[vf_hash64(8802,
				(uint64_t)(d * 64 + i * 8 + j)) % 8];
		push_std(sc, SK_DENSE, P, ports, sp, NULL, ev, av, pv);
	    }
	    return 0;
	}
    }

    if (recipe == 0) {
	int r[3] = { ps, po, pm };
	/* the match reflects are always measured with the full matrix:
	   that is where the leakage terms come from */
	for (int p = 1; p <= sq; ++p)
	    for (int k = 0; k < 3; ++k)
		push_std(sc, SK_REFLECT, 1, &p, &r[k], NULL, ev,
			k == 2 ? 0 : av, pv);
	/* column-system types need every port pair connected at least once:
	   each driving column has its own terms for every receiving port */
	for (int p0 = 1; p0 <= (is_colsys(v->type) ? P - 1 : 1); ++p0) {
	    for (int q = p0 + 1; q <= P; ++q) {
		int ports[2] = { p0, q };
		int none[4] = { -1, -1, -1, -1 };
		cs_c tv[4] = { 0, 1, 1, 0 };
		int ln[4] = { l11, l12, l21, l22 };
		push_std(sc, SK_THROUGH, 2, ports, none, tv, ev, av, pv);
		if (p0 == 1)
		    push_std(sc, SK_LINE, 2, ports, ln, NULL, ev, av, pv);
	    }
	}
	return 0;
    }
    if (recipe == 1) {
	if (P < 2)
	    return -1;
	if (P >= 3) {
	    /* a three-port "chain": ports 1-2 and 2-3 coupled, the direct
	       1-3 transfer explicitly zero, so that ports 1 and 3 are
	       connected only through port 2 */
	    int ports[3] = { 1, 2, 3 };
	    int sp[9] = { l11, l12, -1,
			  l21, l22, l12,
			  -1,  l21, pm };
	    push_std(sc, SK_DENSE, 3, ports, sp, NULL, ev, av, pv);
	}
	if (P == 3) {
	    /* a non-reciprocal "isolator chain": only S23 and S31 are
	       non-zero off the diagonal (1 -> 3 -> 2), every other
	       off-diagonal cell explicitly zero; the three ports are still
	       one connected group */
	    int ports[3] = { 1, 2, 3 };
	    int sp[9] = { l11, -1,  -1,
			  -1,  l22, l12,
			  l21, -1,  pm };
	    push_std(sc, SK_DENSE, 3, ports, sp, NULL, ev, av, pv);
	}
	for (int p = 1; p <= P; ++p) {
	    for (int q = p + 1; q <= P; ++q) {
		int ports[2] = { p, q };
		int none[4] = { -1, -1, -1, -1 };
		cs_c tv[4] = { 0, 1, 1, 0 };
		int ln[4] = { l11, l12, l21, l22 };
		int dr[3][2] = { { ps, po }, { po, pm }, { pm, ps } };
		for (int k = 0; k < 3; ++k) {
		    int sp[4] = { dr[k][0], -1, -1, dr[k][1] };
		    if (sc->nstd + 3 >= CS_MAXSTD)
			break;
		    push_std(sc, SK_DREFLECT, 2, ports, sp, NULL, ev,
			    k == 0 ? 0 : av, pv);
		}
		if (sc->nstd + 2 >= CS_MAXSTD)
		    break;
		push_std(sc, SK_THROUGH, 2, ports, none, tv, ev, av, pv);
		push_std(sc, SK_LINE, 2, ports, ln, NULL, ev, av, pv);
	    }
	}
	return 0;
    }
    if (recipe == 2) {
	/*
	 * the classical sequence with an isolation step: short, open and
	 * match on each port, measured on that port only (1 x 1 matrices
	 * where the shape allows); then loads on all ports at once with the
	 * full measurement matrix, entered as a matrix standard whose
	 * off-diagonal cells are explicitly zero: the only standard that
	 * shows the leakage; then throughs and a line.
	 */
	int r[3] = { ps, po, pm };
	int ports[CS_MAXP], iso[NS];

	if (P < 2)
	    return -1;
	for (int p = 1; p <= sq; ++p)
	    for (int k = 0; k < 3; ++k)
		push_std(sc, SK_REFLECT, 1, &p, &r[k], NULL, ev, 3, pv);
	for (int i = 0; i < P; ++i) {
	    ports[i] = i + 1;
	    for (int j = 0; j < P; ++j)
		iso[i * P + j] = i == j ? (i & 1 ? l11 : pm) : -1;
	}
	push_std(sc, SK_DENSE, P, ports, iso, NULL, ev, 0, pv);
	for (int p0 = 1; p0 <= (is_colsys(v->type) ? P - 1 : 1); ++p0) {
	    for (int q = p0 + 1; q <= P; ++q) {
		int pp[2] = { p0, q };
		int none[4] = { -1, -1, -1, -1 };
		cs_c tv[4] = { 0, 1, 1, 0 };
		int ln[4] = { l11, l12, l21, l22 };
		push_std(sc, SK_THROUGH, 2, pp, none, tv, ev, av, pv);
		if (p0 == 1)
		    push_std(sc, SK_LINE, 2, pp, ln, NULL, ev, av, pv);
	    }
	}
	return 0;
    }
    return -1;
}
