/*
 * csterms.c: check solved error terms against the documented M/S matrix
 * equation of vnacal_layout.h for every standard of a scenario, with the
 * physical (noise-free) measurement M and the physical S of the standard.
 *
 *   T types:  Ts S + Ti = M Tx S + M Tm           (M less outside leakage)
 *   U types:  Um M + Ui = S (Ux M + Us)
 *   UE14:     the U equation per measurement column with its own terms
 *   E12:      M(:,c) = El(:,c) + Er (I - S Em)^-1 S e_c  per column
 *
 * The error terms are read from the calibration held by the vnacal_t
 * (white box: vnacal_internal.h); indices come from the layout macros.
 */
#include "archdep.h"
#include <complex.h>
#include <math.h>
#include <stdlib.h>
#include <string.h>
#include <vnacal.h>
#include <vnacal_internal.h>
#include "vf.h"
#include "calsim.h"

#define NS (CS_MAXP * CS_MAXP)

typedef struct {
    lc_t v[NS];
} mat_t;

static void zero(mat_t *m) { memset(m, 0, sizeof(*m)); }

/* fill a rows x cols matrix (stride P) from `n' diagonal terms */
static void fill_diag(mat_t *m, int P, const double complex *e, int n)
{
    zero(m);
    for (int i = 0; i < n; ++i)
	m->v[i * P + i] = e[i];
}
static void fill_full(mat_t *m, int P, const double complex *e, int rows,
	int cols)
{
    zero(m);
    for (int i = 0; i < rows; ++i)
	for (int j = 0; j < cols; ++j)
	    m->v[i * P + j] = e[i * cols + j];
}

/* relative residual tracker */
static int dbg_f, dbg_k, dbg_i, dbg_j;
static long double g_floor;	/* 1e-6 x overall magnitude of the equation */
static void note(long double *worst, lc_t resid, long double scale)
{
    /* a cell whose every term is (rounding noise around) zero is judged
       against the overall magnitude, not against its own noise */
    if (scale < g_floor)
	scale = g_floor;
    long double r = scale > 0 ? cabsl(resid) / scale : cabsl(resid);
    if (vf_verbose && r > 1e-8L)
	vf_note("  terms: f%d std%d cell(%d,%d) resid %.3Le scale %.3Le",
		dbg_f, dbg_k, dbg_i, dbg_j, cabsl(resid), scale);
    if (!(r <= *worst))
	*worst = r;
}

/*
 * cs_terms_residual: returns 0 and sets *worst to the largest relative
 * residual of the documented equation over all standards, frequencies and
 * cells; returns -1 if the calibration cannot be inspected.
 */
int cs_terms_residual(vnacal_t *vcp, int ci, const cs_scenario *sc,
	long double *worst)
{
    const cs_vna *v = &sc->vna;
    const int P = v->P, rows = v->rows, cols = v->cols;
    const vnacal_calibration_t *calp = _vnacal_get_calibration(vcp, ci);
    vnacal_layout_t vl;

    *worst = 0;
    if (calp == NULL || calp->cal_rows != rows || calp->cal_columns != cols
	    || calp->cal_type != v->type || calp->cal_frequencies != v->nf)
	return -1;
    _vnacal_layout(&vl, v->type, rows, cols);
    if (calp->cal_error_terms != VL_ERROR_TERMS(&vl))
	return -1;

    for (int f = 0; f < v->nf; ++f) {
	double complex e[8 * NS];
	long double emax = 0;
	for (int t = 0; t < calp->cal_error_terms; ++t) {
	    e[t] = calp->cal_error_term_vector[t][f];
	    if (cabs(e[t]) > emax)
		emax = cabs(e[t]);
	}
	g_floor = 1e-6L * emax;

	for (int k = 0; k < sc->nstd; ++k) {
	    cs_c Sd[NS], Md[NS];
	    dbg_f = f; dbg_k = k;
	    lc_t S[NS], M[NS];
	    long double Mabs[NS];	/* |M| + |leakage removed|: scale */

	    cs_std_S(sc, &sc->std[k], f, Sd);
	    if (cs_measure(v, f, Sd, Md) != 0)
		return -1;
	    for (int i = 0; i < P * P; ++i)
		S[i] = Sd[i];
	    for (int i = 0; i < rows; ++i)
		for (int j = 0; j < cols; ++j) {
		    M[i * P + j] = Md[i * cols + j];
		    Mabs[i * P + j] = cabs(Md[i * cols + j]);
		}

	    switch (v->type) {
	    case VNACAL_T8:
	    case VNACAL_TE10:
	    case VNACAL_T16: {
		mat_t Ts, Ti, Tx, Tm;
		if (v->type == VNACAL_T16) {
		    fill_full(&Ts, P, &e[VL_TS_OFFSET(&vl)], rows, P);
		    fill_full(&Ti, P, &e[VL_TI_OFFSET(&vl)], rows, P);
		    fill_full(&Tx, P, &e[VL_TX_OFFSET(&vl)], cols, P);
		    fill_full(&Tm, P, &e[VL_TM_OFFSET(&vl)], cols, P);
		} else {
		    fill_diag(&Ts, P, &e[VL_TS_OFFSET(&vl)], VL_TS_TERMS(&vl));
		    fill_diag(&Ti, P, &e[VL_TI_OFFSET(&vl)], VL_TI_TERMS(&vl));
		    fill_diag(&Tx, P, &e[VL_TX_OFFSET(&vl)], VL_TX_TERMS(&vl));
		    fill_diag(&Tm, P, &e[VL_TM_OFFSET(&vl)], VL_TM_TERMS(&vl));
		}
		if (v->type == VNACAL_TE10) {
		    const double complex *el = &e[VL_EL_OFFSET(&vl)];
		    for (int i = 0; i < rows; ++i)
			for (int j = 0; j < cols; ++j)
			    if (i != j) {
				Mabs[i * P + j] += cabs(*el);
				M[i * P + j] -= *el++;
			    }
		}
		/* R = Ts S + Ti - M (Tx S + Tm), rows x P */
		for (int i = 0; i < rows; ++i)
		    for (int j = 0; j < P; ++j) {
			dbg_i = i; dbg_j = j;
			lc_t r = Ti.v[i * P + j];
			long double sc_ = cabsl(r);
			for (int q = 0; q < P; ++q) {
			    lc_t t = Ts.v[i * P + q] * S[q * P + j];
			    r += t; sc_ += cabsl(t);
			}
			for (int c = 0; c < cols; ++c) {
			    lc_t w = Tm.v[c * P + j];
			    for (int q = 0; q < P; ++q)
				w += Tx.v[c * P + q] * S[q * P + j];
			    lc_t t = M[i * P + c] * w;
			    r -= t; sc_ += Mabs[i * P + c] * cabsl(w);
			}
			note(worst, r, sc_);
		    }
		break;
	    }
	    case VNACAL_U8:
	    case VNACAL_UE10:
	    case VNACAL_U16: {
		mat_t Um, Ui, Ux, Us;
		if (v->type == VNACAL_U16) {
		    fill_full(&Um, P, &e[VL_UM_OFFSET(&vl)], P, rows);
		    fill_full(&Ui, P, &e[VL_UI_OFFSET(&vl)], P, cols);
		    fill_full(&Ux, P, &e[VL_UX_OFFSET(&vl)], P, rows);
		    fill_full(&Us, P, &e[VL_US_OFFSET(&vl)], P, cols);
		} else {
		    fill_diag(&Um, P, &e[VL_UM_OFFSET(&vl)], VL_UM_TERMS(&vl));
		    fill_diag(&Ui, P, &e[VL_UI_OFFSET(&vl)], VL_UI_TERMS(&vl));
		    fill_diag(&Ux, P, &e[VL_UX_OFFSET(&vl)], VL_UX_TERMS(&vl));
		    fill_diag(&Us, P, &e[VL_US_OFFSET(&vl)], VL_US_TERMS(&vl));
		}
		if (v->type == VNACAL_UE10) {
		    const double complex *el = &e[VL_EL_OFFSET(&vl)];
		    for (int i = 0; i < rows; ++i)
			for (int j = 0; j < cols; ++j)
			    if (i != j) {
				Mabs[i * P + j] += cabs(*el);
				M[i * P + j] -= *el++;
			    }
		}
		/* R = Um M + Ui - S (Ux M + Us), P x cols */
		for (int i = 0; i < P; ++i)
		    for (int j = 0; j < cols; ++j) {
			lc_t r = Ui.v[i * P + j];
			long double sc_ = cabsl(r);
			for (int q = 0; q < rows; ++q) {
			    lc_t t = Um.v[i * P + q] * M[q * P + j];
			    r += t;
			    sc_ += cabsl(Um.v[i * P + q]) * Mabs[q * P + j];
			}
			for (int q = 0; q < P; ++q) {
			    lc_t w = Us.v[q * P + j];
			    long double wa = cabsl(w);
			    for (int m = 0; m < rows; ++m) {
				w += Ux.v[q * P + m] * M[m * P + j];
				wa += cabsl(Ux.v[q * P + m]) * Mabs[m * P + j];
			    }
			    lc_t t = S[i * P + q] * w;
			    r -= t; sc_ += cabsl(S[i * P + q]) * wa;
			}
			note(worst, r, sc_);
		    }
		break;
	    }
	    case VNACAL_UE14: {
		/* outside leakage: off-diagonal cells, row-major */
		const double complex *el = &e[VL_EL_OFFSET(&vl)];
		for (int i = 0; i < rows; ++i)
		    for (int j = 0; j < cols; ++j)
			if (i != j) {
			    Mabs[i * P + j] += cabs(*el);
			    M[i * P + j] -= *el++;
			}
		for (int c = 0; c < cols; ++c) {
		    const double complex *um = &e[VL_UM14_OFFSET(&vl, c)];
		    const double complex ui = e[VL_UI14_OFFSET(&vl, c)];
		    const double complex *ux = &e[VL_UX14_OFFSET(&vl, c)];
		    const double complex us = e[VL_US14_OFFSET(&vl, c)];
		    for (int i = 0; i < P; ++i) {
			lc_t r = (lc_t)um[i] * M[i * P + c];
			long double sc_ = cabs(um[i]) * Mabs[i * P + c];
			if (i == c) { r += ui; sc_ += cabs(ui); }
			for (int q = 0; q < P; ++q) {
			    lc_t w = (lc_t)ux[q] * M[q * P + c];
			    long double wa = cabs(ux[q]) * Mabs[q * P + c];
			    if (q == c) { w += us; wa += cabs(us); }
			    lc_t t = S[i * P + q] * w;
			    r -= t; sc_ += cabsl(S[i * P + q]) * wa;
			}
			note(worst, r, sc_);
		    }
		}
		break;
	    }
	    case VNACAL_E12: {
		for (int c = 0; c < cols; ++c) {
		    const double complex *el = &e[VL_EL12_OFFSET(&vl, c)];
		    const double complex *er = &e[VL_ER12_OFFSET(&vl, c)];
		    const double complex *em = &e[VL_EM12_OFFSET(&vl, c)];
		    lc_t A[NS], b[CS_MAXP];
		    long double pr;
		    /* (I - S Em) b = S e_c */
		    for (int i = 0; i < P; ++i) {
			for (int q = 0; q < P; ++q)
			    A[i * P + q] = (i == q ? 1.0L : 0.0L) -
				S[i * P + q] * (lc_t)em[q];
			b[i] = S[i * P + c];
		    }
		    if (lin_solve(P, 1, A, b, 1e-15L, &pr) != P)
			continue;
		    for (int i = 0; i < rows; ++i) {
			lc_t t = (lc_t)er[i] * b[i];
			lc_t r = M[i * P + c] - (lc_t)el[i] - t;
			note(worst, r, cabsl(M[i * P + c]) + cabs(el[i]) +
				cabsl(t));
		    }
		}
		break;
	    }
	    default:
		return -1;
	    }
	}
    }
    return 0;
}
