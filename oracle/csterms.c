/*
 * csterms.c: check solved error terms against the documented M/S matrix
 * equation of vnacal_layout.h for every standard of a scenario, with the
 * physical (noise-free) measurement M and the physical S of the standard.
 *
 *   T types:  Ts S + Ti = M Tx S + M Tm           (M less outside leakage)
 *   U types:  Um M + Ui = S (Ux M + Us)
 *   UE14:     the U equation per measurement column with its own terms
 *   E12:      M(:,c) = El(:,c) + Er (I - S Em)^-1 S e_c  per column
 *
 * The error terms are read from the calibration held by the vnacal_t
 * (white box: vnacal_internal.h); indices come from the layout macros.
 */
#include "archdep.h"
#include <complex.h>
#include <math.h>
#include <stdlib.h>
#include <string.h>
#include <vnacal.h>
#include <vnacal_internal.h>
#include "vf.h"
#include "calsim.h"

#define NS (CS_MAXP * CS_MAXP)

typedef struct {
    lc_t v[NS];
} mat_t;

static void zero(mat_t *m) { memset(m, 0, sizeof(*m)); }

/* fill a rows x cols matrix (stride P) from `n' diagonal terms */
static void fill_diag(mat_t *m, int P, const double complex *e, int n)
{
    zero(m);
    for (int i = 0; i < n; ++i)
	m->v[i * P + i] = e[i];
}
static void fill_full(mat_t *m, int P, const double complex *e, int rows,
	int cols)
{
    zero(m);
    for (int i = 0; i < rows; ++i)
	for (int j = 0; j < cols; ++j)
	    m->v[i * P + j] = e[i * cols + j];
}

/* relative residual tracker */
static int dbg_f, dbg_k, dbg_i, dbg_j;
static long double g_floor;	/* 1e-6 x overall magnitude of the equation */
static void note(long double *worst, lc_t resid, long double scale)
{
    /* a cell whose every term is (rounding noise around) zero is judged
       against the overall magnitude, not against its own noise */
    if (scale < g_floor)
	scale = g_floor;
    long double r = scale > 0 ? cabsl(resid) / scale : cabsl(resid);
    if (vf_verbose && r > 1e-8L)
	vf_note("  terms: f%d std%d cell(%d,%d) resid %.3Le scale %.3Le",
		dbg_f, dbg_k, dbg_i, dbg_j, cabsl(resid), scale);
    if (!(r <= *worst))
	*worst = r;
}

/*
 * cs_terms_residual: returns 0 and sets *worst to the largest relative
 * residual of the documented equation over all standards, frequencies and
 * cells; returns -1 if the calibration cannot be inspected.
 */
int cs_terms_residual(vnacal_t *vcp, int ci, const cs_scenario *sc,
	long double *worst)
{
    const cs_vna *v = &sc->vna;
    const int P = v->P, rows = v->rows, cols = v->cols;
    const vnacal_calibration_t *calp = _vnacal_get_calibration(vcp, ci);
    vnacal_layout_t vl;

    *worst = 0;
    if (calp == NULL || calp->cal_rows != rows || calp->cal_columns != cols
	    || calp->cal_type != v->type || calp->cal_frequencies != v->nf)
	return -1;
    _vnacal_layout(&vl, v->type, rows, cols);
    if (calp->cal_error_terms != VL_ERROR_TERMS(&vl))
	return -1;

    for (int f = 0; f < v->nf; ++f) {
	double complex e[8 * NS];
	long double emax = 0;
	for (int t = 0; t < calp->cal_error_terms; ++t) {
	    e[t] = calp->cal_error_term_vector[t][f];
	    if (cabs(e[t]) > emax)
		emax = cabs(e[t]);
	}
	g_floor = 1e-6L * emax;

	for (int k = 0; k < sc->nstd; ++k) {
	    cs_c Sd[NS], Md[NS];
	    dbg_f = f; dbg_k = k;
	    lc_t S[NS], M[NS];
	    long double Mabs[NS];	/* |M| + |leakage removed|: scale */

	    cs_std_S(sc, &sc->std[k], f, Sd);
	    if (cs_measure(v, f, Sd, Md) != 0)
		return -1;
	    for (int i = 0; i < P * P; ++i)
		S[i] = Sd[i];
	    for (int i = 0; i < rows; ++i)
		for (int j = 0; j < cols; ++j) {
		    M[i * P + j] = Md[i * cols + j];
		    Mabs[i * P + j] = cabs(Md[i * cols + j]);
		}

	    switch (v->type) {
	    case VNACAL_T8:
	    case VNACAL_TE10:
	    case VNACAL_T16: {
		mat_t Ts, Ti, Tx, Tm;
		if (v->type == VNACAL_T16) {
		    fill_full(&Ts, P, &e[VL_TS_OFFSET(&vl)], rows, P);
		    fill_full(&Ti, P, &e[VL_TI_OFFSET(&vl)], rows, P);
		    fill_full(&Tx, P, &e[VL_TX_OFFSET(&vl)], cols, P);
		    fill_full(&Tm, P, &e[VL_TM_OFFSET(&vl)], cols, P);
		} else {
		    fill_diag(&Ts, P, &e[VL_TS_OFFSET(&vl)], VL_TS_TERMS(&vl));
		    fill_diag(&Ti, P, &e[VL_TI_OFFSET(&vl)], VL_TI_TERMS(&vl));
		    fill_diag(&Tx, P, &e[VL_TX_OFFSET(&vl)], VL_TX_TERMS(&vl));
		    fill_diag(&Tm, P, &e[VL_TM_OFFSET(&vl)], VL_TM_TERMS(&vl));
		}
		if (v->type == VNACAL_TE10) {
		    const double complex *el = &e[VL_EL_OFFSET(&vl)];
		    for (int i = 0; i < rows; ++i)
			for (int j = 0; j < cols; ++j)
			    if (i != j) {
				Mabs[i * P + j] += cabs(*el);
				M[i * P + j] -= *el++;
			    }
		}
		/* R = Ts S + Ti - M (Tx S + Tm), rows x P */
		for (int i = 0; i < rows; ++i)
		    for (int j = 0; j < P; ++j) {
			dbg_i = i; dbg_j = j;
			lc_t r = Ti.v[i * P + j];
			long double sc_ = cabsl(r);
			for (int q = 0; q < P; ++q) {
			    lc_t t = Ts.v[i * P + q] * S[q * P + j];
			    r += t; sc_ += cabsl(t);
			}
			for (int c = 0; c < cols; ++c) {
			    lc_t w = Tm.v[c * P + j];
			    for (int q = 0; q < P; ++q)
				w += Tx.v[c * P + q] * S[q * P + j];
			    lc_t t = M[i * P + c] * w;
			    r -= t; sc_ += Mabs[i * P + c] * cabsl(w);
			}
			note(worst, r, sc_);
		    }
		break;
	    }
	    case VNACAL_U8:
	    case VNACAL_UE10:
	    case VNACAL_U16: {
		mat_t Um, Ui, Ux, Us;
		if (v->type == VNACAL_U16) {
		    fill_full(&Um, P, &e[VL_UM_OFFSET(&vl)], P, rows);
		    fill_full(&Ui, P, &e[VL_UI_OFFSET(&vl)], P, cols);
		    fill_full(&Ux, P, &e[VL_UX_OFFSET(&vl)], P, rows);
		    fill_full(&Us, P, &e[VL_US_OFFSET(&vl)], P, cols);
		} else {
		    fill_diag(&Um, P, &e[VL_UM_OFFSET(&vl)], VL_UM_TERMS(&vl));
		    fill_diag(&Ui, P, &e[VL_UI_OFFSET(&vl)], VL_UI_TERMS(&vl));
		    fill_diag(&Ux, P, &e[VL_UX_OFFSET(&vl)], VL_UX_TERMS(&vl));
		    fill_diag(&Us, P, &e[VL_US_OFFSET(&vl)], VL_US_TERMS(&vl));
		}
		if (v->type == VNACAL_UE10) {
		    const double complex *el = &e[VL_EL_OFFSET(&vl)];
		    for (int i = 0; i < rows; ++i)
			for (int j = 0; j < cols; ++j)
			    if (i != j) {
				Mabs[i * P + j] += cabs(*el);
				M[i * P + j] -= *el++;
			    }
		}
		/* R = Um M + Ui - S (Ux M + Us), P x cols */
		for (int i = 0; i < P; ++i)
		    for (int j = 0; j < cols; ++j) {
			lc_t r = Ui.v[i * P + j];
			long double sc_ = cabsl(r);
			for (int q = 0; q < rows; ++q) {
			    lc_t t = Um.v[i * P + q] * M[q * P + j];
			    r += t;
			    sc_ += cabsl(Um.v[i * P + q]) * Mabs[q * P + j];
			}
			for (int q = 0; q < P; ++q) {
			    lc_t w = Us.v[q * P + j];
			    long double wa = cabsl(w);
			    for (int m = 0; m < rows; ++m) {
				w += Ux.v[q * P + m] * M[m * P + j];
				wa += cabsl(Ux.v[q * P + m]) * Mabs[m * P + j];
			    }
			    lc_t t = S[i * P + q] * w;
			    r -= t; sc_ += cabsl(S[i * P + q]) * wa;
			}
			note(worst, r, sc_);
		    }
		break;
	    }
	    case VNACAL_UE14: {
		/* outside leakage: off-diagonal cells, row-major */
		const double complex *el = &e[VL_EL_OFFSET(&vl)];
		for (int i = 0; i < rows; ++i)
		    for (int j = 0; j < cols; ++j)
			if (i != j) {
			    Mabs[i * P + j] += cabs(*el);
			    M[i * P + j] -= *el++;
			}
		for (int c = 0; c < cols; ++c) {
		    const double complex *um = &e[VL_UM14_OFFSET(&vl, c)];
		    const double complex ui = e[VL_UI14_OFFSET(&vl, c)];
		    const double complex *ux = &e[VL_UX14_OFFSET(&vl, c)];
		    const double complex us = e[VL_US14_OFFSET(&vl, c)];
		    for (int i = 0; i < P; ++i) {
			lc_t r = (lc_t)um[i] * M[i * P + c];
			long double sc_ = cabs(um[i]) * Mabs[i * P + c];
			if (i == c) { r += ui; sc_ += cabs(ui); }
			for (int q = 0; q < P; ++q) {
			    lc_t w = (lc_t)ux[q] * M[q * P + c];
			    long double wa = cabs(ux[q]) * Mabs[q * P + c];
			    if (q == c) { w += us; wa += cabs(us); }
			    lc_t t = S[i * P + q] * w;
			    r -= t; sc_ += cabsl(S[i * P + q]) * wa;
			}
			note(worst, r, sc_);
		    }
		}
		break;
	    }
	    case VNACAL_E12: {
		for (int c = 0; c < cols; ++c) {
		    const double complex *el = &e[VL_EL12_OFFSET(&vl, c)];
		    const double complex *er = &e[VL_ER12_OFFSET(&vl, c)];
		    const double complex *em = &e[VL_EM12_OFFSET(&vl, c)];
		    lc_t A[NS], b[CS_MAXP];
		    long double pr;
		    /* (I - S Em) b = S e_c */
		    for (int i = 0; i < P; ++i) {
			for (int q = 0; q < P; ++q)
			    A[i * P + q] = (i == q ? 1.0L : 0.0L) -
				S[i * P + q] * (lc_t)em[q];
			b[i] = S[i * P + c];
		    }
		    if (lin_solve(P, 1, A, b, 1e-15L, &pr) != P)
			continue;
		    for (int i = 0; i < rows; ++i) {
			lc_t t = (lc_t)er[i] * b[i];
			lc_t r = M[i * P + c] - (lc_t)el[i] - t;
			note(worst, r, cabsl(M[i * P + c]) + cabs(el[i]) +
				cabsl(t));
		    }
		}
		break;
	    }
	    default:
		return -1;
	    }
	}
    }
    return 0;
}

/* ------------------------------------------------------------------ */
/*
 * cs_terms_gradient: with inconsistent (noisy) measurements the solved
 * terms must minimise the sum of squares of the documented equations the
 * standards contribute (vnacal_new(3): an equation per measured row and
 * standard column -- U: standard row and measured column -- that the
 * standard was given for and connects through a signal path; leakage terms
 * outside the system are the mean of the measured cells without such a
 * path, at least one of whose ports the standard uses, and are subtracted
 * first).  The equations are linear in the terms,
 * so the test is exact: for every free term t the residual vector r is
 * orthogonal to dr/dt = r(e + 1_t) - r(e).
 *
 * Types: T8 U8 TE10 UE10 T16 U16 UE14 (E12 is solved as UE14 and then
 * converted, which is not linear).  m form only.  Sets *worst to the
 * largest |<dr/dt, r>| / (|dr/dt| |r|), *rnorm to the largest |r| per
 * frequency relative to the terms' magnitude (0: data were consistent,
 * the test says nothing), *lworst to the largest relative deviation of an
 * outside leakage term from the mean of its cells.  Returns 0, or -1 when
 * the calibration cannot be inspected.
 */
typedef struct {
    int type, P, rows, cols;
    const vnacal_layout_t *vl;
} gctx_t;

/* residuals of standard k's equations for term vector e into out[] */
static int std_residuals(const gctx_t *g, const double complex *e,
	const cs_scenario *sc, int k, const lc_t *S, const lc_t *Min,
	const bool *mgiven, lc_t *out)
{
    const int P = g->P, rows = g->rows, cols = g->cols;
    const vnacal_layout_t *vl = g->vl;
    const cs_std *st = &sc->std[k];
    bool inmap[CS_MAXP] = { false }, conn[NS];
    int comp[CS_MAXP];
    lc_t M[NS];
    int n = 0;

    for (int i = 0; i < st->np; ++i)
	inmap[st->port[i] - 1] = true;
    /* connected components of the standard's S graph (structural zeros:
       cells the recipe marks as implied zero) */
    for (int i = 0; i < P; ++i)
	comp[i] = i;
    for (int a = 0; a < st->np; ++a)
	for (int b = 0; b < st->np; ++b) {
	    bool zero = st->sp[a * st->np + b] < 0 &&
		st->sv[a * st->np + b] == 0.0;
	    if (a != b && !zero) {
		int ca = comp[st->port[a] - 1], cb = comp[st->port[b] - 1];
		for (int i = 0; i < P; ++i)
		    if (comp[i] == cb)
			comp[i] = ca;
	    }
	}
    for (int i = 0; i < P; ++i)
	for (int j = 0; j < P; ++j)
	    conn[i * P + j] = inmap[i] && inmap[j] && comp[i] == comp[j];
    const bool full = g->type == VNACAL_T16 || g->type == VNACAL_U16;

    memcpy(M, Min, sizeof(M));
    /* outside leakage */
    if (g->type == VNACAL_TE10 || g->type == VNACAL_UE10 ||
	    g->type == VNACAL_UE14) {
	const double complex *el = &e[VL_EL_OFFSET(vl)];
	for (int i = 0; i < rows; ++i)
	    for (int j = 0; j < cols; ++j)
		if (i != j)
		    M[i * P + j] -= *el++;
    }
    /* cells that were not handed over read zero */
    for (int i = 0; i < rows; ++i)
	for (int j = 0; j < cols; ++j)
	    if (!mgiven[i * P + j])
		M[i * P + j] = 0;

    switch (g->type) {
    case VNACAL_T8: case VNACAL_TE10: case VNACAL_T16: {
	mat_t Ts, Ti, Tx, Tm;
	if (full) {
	    fill_full(&Ts, P, &e[VL_TS_OFFSET(vl)], rows, P);
	    fill_full(&Ti, P, &e[VL_TI_OFFSET(vl)], rows, P);
	    fill_full(&Tx, P, &e[VL_TX_OFFSET(vl)], cols, P);
	    fill_full(&Tm, P, &e[VL_TM_OFFSET(vl)], cols, P);
	} else {
	    fill_diag(&Ts, P, &e[VL_TS_OFFSET(vl)], VL_TS_TERMS(vl));
	    fill_diag(&Ti, P, &e[VL_TI_OFFSET(vl)], VL_TI_TERMS(vl));
	    fill_diag(&Tx, P, &e[VL_TX_OFFSET(vl)], VL_TX_TERMS(vl));
	    fill_diag(&Tm, P, &e[VL_TM_OFFSET(vl)], VL_TM_TERMS(vl));
	}
	for (int i = 0; i < rows; ++i) {
	    bool rowgiven = false;
	    for (int c = 0; c < cols; ++c)
		if (mgiven[i * P + c])
		    rowgiven = true;
	    for (int j = 0; j < P; ++j) {
		if (!rowgiven || !inmap[j] || (!full && !conn[i * P + j]))
		    continue;
		lc_t r = Ti.v[i * P + j];
		for (int q = 0; q < P; ++q)
		    r += Ts.v[i * P + q] * S[q * P + j];
		for (int c = 0; c < cols; ++c) {
		    lc_t w = Tm.v[c * P + j];
		    for (int q = 0; q < P; ++q)
			w += Tx.v[c * P + q] * S[q * P + j];
		    r -= M[i * P + c] * w;
		}
		out[n++] = r;
	    }
	}
	break;
    }
    case VNACAL_U8: case VNACAL_UE10: case VNACAL_U16: {
	mat_t Um, Ui, Ux, Us;
	if (full) {
	    fill_full(&Um, P, &e[VL_UM_OFFSET(vl)], P, rows);
	    fill_full(&Ui, P, &e[VL_UI_OFFSET(vl)], P, cols);
	    fill_full(&Ux, P, &e[VL_UX_OFFSET(vl)], P, rows);
	    fill_full(&Us, P, &e[VL_US_OFFSET(vl)], P, cols);
	} else {
	    fill_diag(&Um, P, &e[VL_UM_OFFSET(vl)], VL_UM_TERMS(vl));
	    fill_diag(&Ui, P, &e[VL_UI_OFFSET(vl)], VL_UI_TERMS(vl));
	    fill_diag(&Ux, P, &e[VL_UX_OFFSET(vl)], VL_UX_TERMS(vl));
	    fill_diag(&Us, P, &e[VL_US_OFFSET(vl)], VL_US_TERMS(vl));
	}
	for (int i = 0; i < P; ++i)
	    for (int j = 0; j < cols; ++j) {
		bool colgiven = false;
		for (int q = 0; q < rows; ++q)
		    if (mgiven[q * P + j])
			colgiven = true;
		if (!colgiven || !inmap[i] || (!full && !conn[i * P + j]))
		    continue;
		lc_t r = Ui.v[i * P + j];
		for (int q = 0; q < rows; ++q)
		    r += Um.v[i * P + q] * M[q * P + j];
		for (int q = 0; q < P; ++q) {
		    lc_t w = Us.v[q * P + j];
		    for (int m = 0; m < rows; ++m)
			w += Ux.v[q * P + m] * M[m * P + j];
		    r -= S[i * P + q] * w;
		}
		out[n++] = r;
	    }
	break;
    }
    case VNACAL_UE14:
	for (int c = 0; c < cols; ++c) {
	    const double complex *um = &e[VL_UM14_OFFSET(vl, c)];
	    const double complex ui = e[VL_UI14_OFFSET(vl, c)];
	    const double complex *ux = &e[VL_UX14_OFFSET(vl, c)];
	    const double complex us = e[VL_US14_OFFSET(vl, c)];
	    bool colgiven = false;
	    for (int q = 0; q < rows; ++q)
		if (mgiven[q * P + c])
		    colgiven = true;
	    for (int i = 0; i < P; ++i) {
		if (!colgiven || !inmap[i] || !conn[i * P + c])
		    continue;
		lc_t r = (lc_t)um[i] * M[i * P + c];
		if (i == c)
		    r += ui;
		for (int q = 0; q < P; ++q) {
		    lc_t w = (lc_t)ux[q] * M[q * P + c];
		    if (q == c)
			w += us;
		    r -= S[i * P + q] * w;
		}
		out[n++] = r;
	    }
	}
	break;
    default:
	return -1;
    }
    return n;
}

int cs_terms_gradient(vnacal_t *vcp, int ci, const cs_scenario *sc,
	long double *worst, long double *rnorm, long double *lworst)
{
    const cs_vna *v = &sc->vna;
    const int P = v->P, rows = v->rows, cols = v->cols;
    const vnacal_calibration_t *calp = _vnacal_get_calibration(vcp, ci);
    vnacal_layout_t vl;
    static cs_c Mf[CS_MAXSTD][CS_MAXF][NS];
    static lc_t r0[CS_MAXSTD * NS], r1[CS_MAXSTD * NS];
    gctx_t g;

    *worst = *rnorm = *lworst = 0;
    if (calp == NULL || calp->cal_rows != rows || calp->cal_columns != cols
	    || calp->cal_type != v->type || calp->cal_frequencies != v->nf ||
	    sc->ab || v->type == VNACAL_E12)
	return -1;
    _vnacal_layout(&vl, v->type, rows, cols);
    if (calp->cal_error_terms != VL_ERROR_TERMS(&vl))
	return -1;
    g.type = v->type; g.P = P; g.rows = rows; g.cols = cols; g.vl = &vl;
    for (int k = 0; k < sc->nstd; ++k)
	if (cs_std_measure(sc, k, Mf[k]) != 0)
	    return -1;

    const bool leak = v->type == VNACAL_TE10 || v->type == VNACAL_UE10 ||
	v->type == VNACAL_UE14;
    const int nterms = calp->cal_error_terms;
    const int nfree = leak ? VL_EL_OFFSET(&vl) : nterms;

    for (int f = 0; f < v->nf; ++f) {
	double complex e[8 * NS];
	lc_t S[CS_MAXSTD][NS], M[CS_MAXSTD][NS];
	bool mgiven[CS_MAXSTD][NS];
	long double emax = 0;

	for (int t = 0; t < nterms; ++t) {
	    e[t] = calp->cal_error_term_vector[t][f];
	    if (cabs(e[t]) > emax)
		emax = cabs(e[t]);
	}
	for (int k = 0; k < sc->nstd; ++k) {
	    const cs_std *st = &sc->std[k];
	    cs_c Sd[NS];
	    bool inmap[CS_MAXP] = { false };

	    cs_std_S(sc, st, f, Sd);
	    for (int i = 0; i < st->np; ++i)
		inmap[st->port[i] - 1] = true;
	    for (int i = 0; i < P * P; ++i) {
		S[k][i] = Sd[i];
		M[k][i] = 0;
		mgiven[k][i] = false;
	    }
	    for (int i = 0; i < rows; ++i)
		for (int j = 0; j < cols; ++j) {
		    M[k][i * P + j] = Mf[k][f][i * cols + j];
		    mgiven[k][i * P + j] =
			(!st->abbrev_rows || inmap[i]) &&
			(!st->abbrev_cols || inmap[j]);
		}
	}
	/* outside leakage terms: mean of the given cells without a path */
	if (leak) {
	    const double complex *el = &e[VL_EL_OFFSET(&vl)];
	    for (int i = 0; i < rows; ++i)
		for (int j = 0; j < cols; ++j) {
		    if (i == j)
			continue;
		    lc_t sum = 0;
		    int cnt = 0;
		    for (int k = 0; k < sc->nstd; ++k) {
			const cs_std *st = &sc->std[k];
			int comp[CS_MAXP];
			bool inmap[CS_MAXP] = { false };
			for (int a = 0; a < P; ++a) comp[a] = a;
			for (int a = 0; a < st->np; ++a)
			    inmap[st->port[a] - 1] = true;
			for (int a = 0; a < st->np; ++a)
			    for (int b = 0; b < st->np; ++b) {
				bool zero = st->sp[a * st->np + b] < 0 &&
				    st->sv[a * st->np + b] == 0.0;
				if (a != b && !zero) {
				    int ca = comp[st->port[a] - 1];
				    int cb = comp[st->port[b] - 1];
				    for (int x = 0; x < P; ++x)
					if (comp[x] == cb) comp[x] = ca;
				}
			    }
			bool connected = inmap[i] && inmap[j] &&
			    comp[i] == comp[j];
			/* between two ports the standard leaves open
			   anything may be connected: no observation */
			if (!connected && (inmap[i] || inmap[j]) &&
				mgiven[k][i * P + j]) {
			    sum += M[k][i * P + j];
			    ++cnt;
			}
		    }
		    if (cnt > 0) {
			long double d = cabsl((lc_t)*el - sum / cnt) /
			    (cabsl(sum / cnt) + 1e-6L * emax + 1e-300L);
			if (!(d <= *lworst))
			    *lworst = d;
		    }
		    ++el;
		}
	}
	/* residual vector at the solution */
	int n0 = 0;
	for (int k = 0; k < sc->nstd; ++k) {
	    int n = std_residuals(&g, e, sc, k, S[k], M[k], mgiven[k],
		    &r0[n0]);
	    if (n < 0)
		return -1;
	    n0 += n;
	}
	long double rr = 0;
	for (int i = 0; i < n0; ++i)
	    rr += creall(r0[i] * conjl(r0[i]));
	rr = sqrtl(rr);
	if (!(rr / (emax + 1e-300L) <= *rnorm))
	    *rnorm = rr / (emax + 1e-300L);
	if (rr == 0)
	    continue;
	for (int t = 0; t < nfree; ++t) {
	    bool unity = false;
	    /* the term fixed at 1: tm11 / um11; UE14: um_cc of column c */
	    if (v->type == VNACAL_UE14) {
		for (int sys = 0; sys < cols; ++sys)
		    if (VL_UM14_OFFSET(&vl, sys) + sys == t)
			unity = true;
	    } else if (_vl_unity_offset(&vl, 0) == t)
		unity = true;
	    if (unity)
		continue;
	    double complex e1[8 * NS];
	    memcpy(e1, e, sizeof(double complex) * (size_t)nterms);
	    e1[t] += 1.0;
	    int n1 = 0;
	    for (int k = 0; k < sc->nstd; ++k)
		n1 += std_residuals(&g, e1, sc, k, S[k], M[k], mgiven[k],
			&r1[n1]);
	    if (n1 != n0)
		return -1;
	    lc_t dot = 0;
	    long double dd = 0;
	    for (int i = 0; i < n0; ++i) {
		lc_t d = r1[i] - r0[i];
		dot += conjl(d) * r0[i];
		dd += creall(d * conjl(d));
	    }
	    if (dd == 0)
		continue;
	    long double gcos = cabsl(dot) / (sqrtl(dd) * rr);
	    if (vf_verbose && gcos > 1e-8L)
		vf_note("  gradient: f%d term %d: cos %.3Le (|r| %.3Le)", f, t,
			gcos, rr);
	    if (!(gcos <= *worst))
		*worst = gcos;
	}
    }
    return 0;
}

/* ------------------------------------------------------------------ */
/*
 * cs_terms_rank16: for the 16-term types, whether the selected standards
 * determine the error terms is a question about the documented linear
 * system itself (vnacal_new(3): a T16 standard contributes an equation for
 * every measured row and every standard column it was given for, a U16
 * standard for every standard row and measured column - also when it
 * leaves ports open).  The coefficient matrix of that system is formed
 * from the exact measurements (linearity of the documented equations in
 * the terms) and its rank found by complete pivoting in long double.
 * Returns 1 when the rank equals the number of unknown terms; *margin is
 * the pivot ratio, *eqs the number of equations.
 */
int cs_terms_rank16(const cs_scenario *sc, unsigned mask, long double *margin,
	int *eqs, int *unknowns)
{
    const cs_vna *v = &sc->vna;
    const int P = v->P, rows = v->rows, cols = v->cols;
    vnacal_layout_t vl;
    gctx_t g;
    static lc_t r0[CS_MAXSTD * NS], r1[CS_MAXSTD * NS];
    lc_t *A;
    int nterms, unity, n0 = 0, rank;

    *margin = 0; *eqs = 0; *unknowns = 0;
    if (v->type != VNACAL_T16 && v->type != VNACAL_U16)
	return -1;
    _vnacal_layout(&vl, v->type, rows, cols);
    nterms = VL_ERROR_TERMS(&vl);
    unity = _vl_unity_offset(&vl, 0);
    *unknowns = nterms - 1;
    g.type = v->type; g.P = P; g.rows = rows; g.cols = cols; g.vl = &vl;

    lc_t S[CS_MAXSTD][NS], M[CS_MAXSTD][NS];
    bool mgiven[CS_MAXSTD][NS];
    int sel[CS_MAXSTD], nsel = 0;
    for (int k = 0; k < sc->nstd; ++k) {
	cs_c Sd[NS], Md[NS];
	bool inmap[CS_MAXP] = { false };
	if (!(mask & (1u << k)))
	    continue;
	cs_std_S(sc, &sc->std[k], 0, Sd);
	if (cs_measure(v, 0, Sd, Md) != 0)
	    return -1;
	for (int i = 0; i < sc->std[k].np; ++i)
	    inmap[sc->std[k].port[i] - 1] = true;
	for (int i = 0; i < P * P; ++i) {
	    S[nsel][i] = Sd[i];
	    M[nsel][i] = 0;
	    mgiven[nsel][i] = false;
	}
	for (int i = 0; i < rows; ++i)
	    for (int j = 0; j < cols; ++j) {
		M[nsel][i * P + j] = Md[i * cols + j];
		mgiven[nsel][i * P + j] =
		    (!sc->std[k].abbrev_rows || inmap[i]) &&
		    (!sc->std[k].abbrev_cols || inmap[j]);
	    }
	sel[nsel++] = k;
    }
    double complex e[8 * NS];
    memset(e, 0, sizeof(e));
    e[unity] = 1.0;
    for (int q = 0; q < nsel; ++q) {
	int n = std_residuals(&g, e, sc, sel[q], S[q], M[q], mgiven[q],
		&r0[n0]);
	if (n < 0)
	    return -1;
	n0 += n;
    }
    *eqs = n0;
    if (n0 == 0)
	return 0;
    A = calloc((size_t)n0 * (size_t)(nterms - 1) + 1, sizeof(lc_t));
    if (A == NULL)
	return -1;
    for (int t = 0, ct = 0; t < nterms; ++t) {
	int n1 = 0;
	if (t == unity)
	    continue;
	e[t] = 1.0;
	for (int q = 0; q < nsel; ++q)
	    n1 += std_residuals(&g, e, sc, sel[q], S[q], M[q], mgiven[q],
		    &r1[n1]);
	e[t] = 0.0;
	for (int i = 0; i < n0; ++i)
	    A[i * (nterms - 1) + ct] = r1[i] - r0[i];
	++ct;
    }
    rank = lin_rank(n0, nterms - 1, A, 1e-11L, margin);
    free(A);
    return rank == nterms - 1;
}
