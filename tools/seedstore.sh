#!/bin/sh
# usage: tools/seedstore.sh <name> <seedout-dir> <property> <caught-by> <needs...>
NAME=$1; SRC=$2; PROP=$3; CAUGHT=$4; shift 4
V=$(cd "$(dirname "$0")/.." && pwd)
D="$V/seeded/$NAME"
mkdir -p "$D"
cp "$SRC/patch.diff" "$D/patch.diff"
[ -f "$SRC/demo.c" ] && cp "$SRC/demo.c" "$D/demo.c"
[ -f "$SRC/notes.md" ] && cp "$SRC/notes.md" "$D/notes.md"
[ -f "$SRC/ldflags" ] && cp "$SRC/ldflags" "$D/ldflags"
python3 - "$D" "$PROP" "$CAUGHT" "$*" <<'PY'
import json,sys
d,prop,caught,needs=sys.argv[1:5]
json.dump({"property":prop,"breaks":prop,"needs_to_manifest":needs,
 "source":"fresh sub-agent given only the property text and a scratch worktree",
 "verified":"tools/seedcheck.sh: demo exits 0 on the original tree, 25/25 tests pass with the patch, demo exits non-zero with the patch",
 "caught_by":caught.split(",") if caught else [],
 "how_to_run":"tools/seedcheck.sh <name> seeded/<name> <ID>"},open(d+"/meta.json","w"),indent=1)
PY
echo stored $D
