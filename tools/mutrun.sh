#!/bin/sh
# usage: tools/mutrun.sh <patch.diff> <ID> [<ID>...]   (env TIER=quick|thorough)
# Applies the patch to a scratch worktree of /repo, runs the named checks
# against it (evidence and replays go to a scratch directory), removes the
# worktree again.  /repo itself is never touched.
set -u
PATCH=$(readlink -f "$1"); shift
V=$(cd "$(dirname "$0")/.." && pwd)
WT=/var/tmp/vf-mutwt-$$
OUT=/var/tmp/vf-mutout-$$
trap 'git -C /repo worktree remove --force "$WT" >/dev/null 2>&1; rm -rf "$WT" "$OUT"' EXIT
git -C /repo worktree add --detach "$WT" HEAD >/dev/null 2>&1 || exit 3
# carry over uncommitted tracked changes of /repo (none expected)
git -C "$WT" apply "$PATCH" || { echo "patch does not apply"; exit 3; }
mkdir -p "$OUT"
rc=0
for id in "$@"; do
    VERIF_REPO="$WT" VERIF_OUT="$OUT" "$V/check" "$id" --tier "${TIER:-quick}" 2>&1 | grep -E "VIOLATION|KNOWN-FINDING|HARNESS|sig:|what:|violation\(s\)|FAILED|error" | head -${LINES_MAX:-12}
done
