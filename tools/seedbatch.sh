#!/bin/sh
# usage: tools/seedbatch.sh <round> <ID>...
# Runs tools/seedcheck.sh for each /tmp/seedout<round>-<ID> against the check
# of its own property, one after the other, and prints one summary line each.
R=$1; shift
V=$(cd "$(dirname "$0")/.." && pwd)
for id in "$@"; do
    d=/tmp/seedout$R-$id
    [ -f "$d/patch.diff" ] || { echo "$id: no patch yet"; continue; }
    log=/var/tmp/sb-$R-$id.log
    "$V/tools/seedcheck.sh" "$id-r$R" "$d" "$id" > "$log" 2>&1
    d0=$(grep -c "demo on original: exit 0" "$log")
    d1=$(grep "demo on changed" "$log" | sed 's/.*exit //')
    pass=$(grep -c "# PASS:  25 # FAIL:  0" "$log")
    viol=$(grep -c "^VIOLATION" "$log")
    sig=$(grep "sig:" "$log" | head -1 | sed 's/ *sig: *//')
    echo "$id: demo-orig-ok=$d0 demo-changed-exit=$d1 tests25=$pass violations=$viol $sig"
done
