#!/usr/bin/env python3
"""usage: tools/sec8.py <quick-log> <thorough-log>
Rewrites the 'quick' and 'thorough' columns of the table in DESIGN.md
section 8 from the summary lines of two tools/runall.sh logs."""
import re, sys, os
V = os.path.dirname(os.path.dirname(os.path.abspath(__file__)))
def parse(path, tier):
    d = {}
    for l in open(path):
        m = re.match(r'(C\d\d) %s: (\d+) cases, .* ([\d.]+)s$' % tier, l.strip())
        if m:
            d[m.group(1)] = (int(m.group(2)), float(m.group(3)))
    return d
def fmt(n, t):
    if n >= 1000000: ns = '%.1f M' % (n / 1e6)
    elif n >= 10000: ns = '%d k' % round(n / 1000)
    elif n >= 1000: ns = '%.1f k' % (n / 1000)
    else: ns = '%d' % n
    ts = '%.1f min' % (t / 60) if t >= 90 else '%d s' % round(t)
    return '%s, %s' % (ns, ts)
q = parse(sys.argv[1], 'quick'); t = parse(sys.argv[2], 'thorough')
p = os.path.join(V, 'DESIGN.md'); s = open(p).read().split('\n')
for i, l in enumerate(s):
    m = re.match(r'\| (C\d\d) \| (\w+) \| [^|]* \| [^|]* \| (.*)$', l)
    if m and m.group(1) in q and m.group(1) in t:
        s[i] = '| %s | %s | %s | %s | %s' % (m.group(1), m.group(2), fmt(*q[m.group(1)]), fmt(*t[m.group(1)]), m.group(3))
open(p, 'w').write('\n'.join(s))
print('updated', len(q), len(t))
