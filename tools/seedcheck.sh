#!/bin/sh
# usage: tools/seedcheck.sh <name> <seedout-dir> <ID> [<ID>...]
# Verifies a seeded breaking change independently (original: demo passes;
# changed: 25 tests pass, demo fails), then runs the named checks against the
# changed tree.  Everything happens in a scratch worktree that is removed.
set -u
NAME=$1; SRC=$2; shift 2
V=$(cd "$(dirname "$0")/.." && pwd)
WT=/tmp/sv-$NAME-$$
OUT=/var/tmp/sv-out-$NAME-$$
trap 'git -C /repo worktree remove --force "$WT" >/dev/null 2>&1; rm -rf "$WT" "$OUT" /tmp/sv-demo-$$' EXIT
"$V/tools/mkworktree.sh" "$WT" >/dev/null || exit 3
mkdir -p "$OUT"
build_demo() {
    if [ -f "$SRC/demo.c" ]; then
	# optional extra link flags of the demo (e.g. -Wl,--wrap=malloc)
	XLD=; [ -f "$SRC/ldflags" ] && XLD=$(cat "$SRC/ldflags")
	gcc -w -I"$WT/src" -I"$WT" "$SRC/demo.c" "$WT/src/.libs/libvna.a" $XLD -lyaml -lm -o /tmp/sv-demo-$$ 2>&1 | tail -3
    fi
}
(cd "$WT" && make -j16 >/dev/null 2>&1)
build_demo
(cd "$SRC" && /tmp/sv-demo-$$ >/dev/null 2>&1); echo "demo on original: exit $?"
git -C "$WT" apply "$SRC/patch.diff" || { echo "PATCH DOES NOT APPLY"; exit 3; }
(cd "$WT" && make -j16 check > "$OUT/make.log" 2>&1); grep -E "^# (PASS|FAIL)" "$OUT/make.log" | tr '\n' ' '; echo
build_demo
(cd "$SRC" && /tmp/sv-demo-$$ >/dev/null 2>&1); echo "demo on changed: exit $?"
for id in "$@"; do
    VERIF_REPO="$WT" VERIF_OUT="$OUT" "$V/check" "$id" --tier "${TIER:-quick}" 2>&1 | grep -E "VIOLATION|sig:|what:|^$id " | head -${LINES_MAX:-8}
done
