#!/bin/sh
# usage: tools/runall.sh [quick|thorough] [IDs...]
cd "$(dirname "$0")/.." || exit 1
tier=${1:-quick}; shift 2>/dev/null
ids=${*:-$(cat drivers/READY)}
rc=0
for id in $ids; do
    ./check "$id" --tier "$tier" 2>&1 | grep -E "VIOLATION|KNOWN-FINDING|HARNESS|sig:|^$id |FAILED" 
    [ "${PIPESTATUS:-0}" != 0 ] && rc=1
done
exit $rc
