#!/bin/sh
# usage: tools/mkworktree.sh <dir>
# Creates a scratch git worktree of /repo at <dir> (detached at HEAD) and
# copies the ignored build infrastructure (configure output, Makefiles,
# .deps) so that `make -j16 check` works in it without re-running configure.
set -e
D="$1"
git -C /repo worktree add --detach "$D" HEAD >/dev/null 2>&1
cd /repo
git ls-files --others --ignored --exclude-standard | \
    grep -v '\.o$\|\.lo$\|\.la$\|/\.libs/\|\.log$\|\.trs$\|^src/tests/test-[^.]*$\|-example$\|^src/convert-parameters$\|\.a$\|autom4te.cache' | \
    rsync -a --files-from=- /repo/ "$D"/
# keep timestamps ordered so that make does not try to regenerate
touch "$D"/aclocal.m4; sleep 0.01
find "$D" -name Makefile.in -exec touch {} +; touch "$D"/configure "$D"/config.h.in; sleep 0.01
touch "$D"/config.status; sleep 0.01
find "$D" -name Makefile -exec touch {} +; touch "$D"/config.h "$D"/stamp-h1 "$D"/libtool
echo "$D ready"
